#!/bin/bash
# usage: tools/corpus-stream.sh <N> <items...>   -- like corpus-par.sh, but every verdict line is printed as soon as it is
# known (unsorted), so that a run that is stopped early still leaves a usable partial log
here=$(cd "$(dirname "$0")/.." && pwd)
n=$1; shift
tmp=$(mktemp -d /tmp/govc-par-XXXXXX); trap 'rm -rf "$tmp"' EXIT
i=0
for it in "$@"; do echo "$it" >> "$tmp/chunk$((i % n))"; i=$((i+1)); done
for c in $(seq 0 $((n-1))); do
  [ -f "$tmp/chunk$c" ] && ( "$here/tools/corpus.sh" $(cat "$tmp/chunk$c") 2>&1 | grep --line-buffered -E "^(CAUGHT|MISSED|ERROR)" ) &
done
wait
