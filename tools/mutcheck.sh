#!/bin/bash
# usage: tools/mutcheck.sh <patch-file> [govc dev args...]
# Applies a patch to a scratch copy of /repo (outside /repo and /verif), runs govc on it, removes the copy.
set -u
patch=$(realpath "$1"); shift
d=$(mktemp -d /tmp/govc-mut-XXXXXX)
trap 'rm -rf "$d"' EXIT
rsync -a --exclude .git "${MUT_BASE:-/repo}/" "$d/"
if ! (cd "$d" && patch -p1 -s < "$patch"); then echo "PATCH FAILED"; exit 3; fi
if [ "${MUT_BUILD:-1}" = 1 ]; then
  (cd "$d" && GOFLAGS=-mod=mod GOPROXY=off go build ./... ) || { echo "BUILD FAILED"; exit 3; }
fi
"$(dirname "$0")/../bin/govc" dev -repo "$d" -stubs "$(dirname "$0")/../stubs" "$@"
