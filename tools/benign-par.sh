#!/bin/bash
# usage: tools/benign-par.sh <N> <items...>   -- tools/benign.sh on N interleaved chunks concurrently
here=$(cd "$(dirname "$0")/.." && pwd)
n=$1; shift
tmp=$(mktemp -d /tmp/govc-par-XXXXXX); trap 'rm -rf "$tmp"' EXIT
i=0
for it in "$@"; do echo "$it" >> "$tmp/chunk$((i % n))"; i=$((i+1)); done
for c in $(seq 0 $((n-1))); do
  [ -f "$tmp/chunk$c" ] && ( "$here/tools/benign.sh" $(cat "$tmp/chunk$c") > "$tmp/out$c" 2>&1 ) &
done
wait
cat "$tmp"/out* | grep -E "^(QUIET|ALARM|ERROR)" | sort -k2
