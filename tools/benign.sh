#!/bin/bash
# usage: tools/benign.sh <patch>:<prop>[,<prop>...] ...
# Must-pass corpus: behaviour-preserving edits applied to scratch copies of /repo; every listed check must exit 0.
here=$(cd "$(dirname "$0")/.." && pwd)
out=$(mktemp -d /tmp/govc-out-XXXXXX); trap 'rm -rf "$out"' EXIT
for item in "$@"; do
  p=${item%%:*}; props=${item#*:}
  f=$(realpath "$p")
  d=$(mktemp -d /tmp/govc-ben-XXXXXX)
  rsync -a --exclude .git /repo/ "$d/"
  if ! (cd "$d" && patch -p1 -s < "$f") >/dev/null 2>&1; then echo "ERROR   $p: patch failed"; rm -rf "$d"; continue; fi
  if ! (cd "$d" && GOFLAGS=-mod=mod GOPROXY=off go build ./... ) >/dev/null 2>&1; then echo "ERROR   $p: build failed"; rm -rf "$d"; continue; fi
  res=""; bad=0
  for prop in ${props//,/ }; do
    o=$(VERIF_HOME="$here" VERIF_REPO="$d" VERIF_OUT="$out" "$here/check" $prop 2>&1); rc=$?
    first=$(echo "$o" | grep -E "^(FAILED|VACUOUS|ENGINE-ERROR|MISSING|check failed)" | head -1 | cut -c1-160)
    [ $rc -ne 0 ] && bad=1
    res="$res $prop(rc=$rc) $first;"
  done
  if [ $bad = 0 ]; then echo "QUIET   $p:$res"; else echo "ALARM   $p:$res"; fi
  rm -rf "$d"
done
