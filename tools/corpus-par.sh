#!/bin/bash
# usage: tools/corpus-par.sh <N> <items...>   -- runs tools/corpus.sh on N interleaved chunks concurrently; output order is by chunk
here=$(cd "$(dirname "$0")/.." && pwd)
n=$1; shift
tmp=$(mktemp -d /tmp/govc-par-XXXXXX); trap 'rm -rf "$tmp"' EXIT
i=0
for it in "$@"; do echo "$it" >> "$tmp/chunk$((i % n))"; i=$((i+1)); done
for c in $(seq 0 $((n-1))); do
  [ -f "$tmp/chunk$c" ] && ( "$here/tools/corpus.sh" $(cat "$tmp/chunk$c") > "$tmp/out$c" 2>&1 ) &
done
wait
cat "$tmp"/out* | grep -E "^(CAUGHT|MISSED|ERROR)" | sort -k2
