#!/bin/bash
# usage: tools/corpus.sh <patch-or-dir>:<prop>[,<prop>...] ...
# Runs the registered quick checks against scratch copies of /repo with each patch applied (never touches /repo).
here=$(cd "$(dirname "$0")/.." && pwd)
base=$(mktemp -d /tmp/govc-base-XXXXXX); out=$(mktemp -d /tmp/govc-out-XXXXXX)
trap 'rm -rf "$base" "$out"' EXIT
rsync -a --exclude .git /repo/ "$base/"
for item in "$@"; do
  p=${item%%:*}; props=${item#*:}
  f=$p; [ -d "$p" ] && f=$p/patch.diff
  f=$(realpath "$f")
  d=$(mktemp -d /tmp/govc-mut-XXXXXX)
  rsync -a "$base/" "$d/"
  if ! (cd "$d" && patch -p1 -s < "$f") >/dev/null 2>&1; then echo "ERROR   $p: patch failed"; rm -rf "$d"; continue; fi
  if ! (cd "$d" && GOFLAGS=-mod=mod GOPROXY=off go build ./... ) >/dev/null 2>&1; then echo "ERROR   $p: build failed"; rm -rf "$d"; continue; fi
  res=""; caught=0
  for prop in ${props//,/ }; do
    o=$(VERIF_HOME="$here" VERIF_REPO="$d" VERIF_OUT="$out" "$here/check" $prop 2>&1); rc=$?
    nv=$(echo "$o" | grep -c "^VIOLATION"); nr=$(echo "$o" | grep "^VIOLATION" | grep -vc "no-failing-input-found")
    first=$(echo "$o" | grep -E "^(FAILED|VACUOUS|ENGINE-ERROR|MISSING|check failed)" | head -1 | cut -c1-100)
    [ $rc -ne 0 ] && caught=1
    res="$res $prop(rc=$rc viol=$nv replayed=$nr) $first;"
  done
  if [ $caught = 1 ]; then echo "CAUGHT  $p:$res"; else echo "MISSED  $p:$res"; fi
  rm -rf "$d"
done
