#!/usr/bin/env python3
# Regenerates /verif/MANIFEST.json and /verif/props/*.json from the table below.
import json, os
V = os.path.dirname(os.path.dirname(os.path.abspath(__file__)))
props = [json.loads(l) for l in open(os.path.join(V, 'properties.jsonl'))]
TECH = "contract-based deductive verification: weakest-precondition style symbolic execution of go/ssa built from /repo, contracts in comment-only files behind the verif tag, obligations discharged by z3/cvc5"
claimed = {
 "C01": dict(text="Proof, for every wf database state, rule set, caller, name and argument, of the per-operation deny / no-effect-without-grant / audit clauses of all eight DB methods and of list soundness+completeness, with ACL evaluation (Rules.Allow) proved equal to 'one single rule lists the action and matches the name'. A postcondition is the right level because the property is a universally quantified statement about one call; tests sample a handful of super-user scenarios.",
   note="Assumes: A-regexp (canonical regexp decides the glob relation), A-err (errors.Is/multierr composition), stubs for json/audit sink; sequential semantics (no interleavings). The HTTP layer's status mapping is C08. Existence-independence is proved as: the refusal (error class, zero result, audit entry) is a function of caller and arguments only; exact error identity when the audit sink also fails is not claimed.",
   nd=["HTTP handlers wiring (C08)"], ref="5 C01"),
 "C02": dict(text="Proof that every kv and DB operation refines the map model of the statement: inductive representation invariant wf, whole-view postconditions (created/deduped/fresh version numbering, activate, delete-version, delete), failed calls change nothing, other names untouched, readback of put. Holds for all states satisfying wf, hence for all histories by induction (meta-argument C-1 in DESIGN.md).",
   note="Assumes A-ctr (fewer than 2^32-1 versions per secret: stated as a precondition), A-memory (fresh allocations distinct), maps/slices model; induction over histories is a written meta-argument, each step is machine-checked.", nd=[], ref="5 C02"),
 "C03": dict(text="Proof that sync (decoding the file with the in-memory DEK yields exactly the in-memory view, counters included) is established by newKV/open and preserved by every mutator on success and failure; open never writes; open computes exactly the documented schema-1 decoding (version checked, contexts pinned as literals); layout pins for wrapped/persist/secret.",
   note="Relative to A-json (Marshal/Unmarshal inverse for the persisted shapes, pointwise), A-aead, A-keyset, A-b64, A-atomic. Binary compatibility with files written by the pinned release rests on those assumptions plus the layout pins; no fixture file is read.",
   nd=["that bytes produced by an earlier build decode identically (rests on encoding/json and tink compatibility, assumed)"], ref="5 C03"),
 "C04": dict(text="Proof of the I/O-failure half: for every mutator and for database creation, an error from any step of save leaves view, file system, write generation and invariants exactly as before (each rollback branch is a path the obligation quantifies over); gen increments exactly on success; structural proof that package db writes files only through atomicfile.WriteFile in save.",
   note="Crash instants (kill between system calls), partial writes and fsync durability are NOT decided: they are behaviour of atomicfile and the kernel (A-atomic). Only the error return of a file-system call is a branch the verifier explores.",
   nd=["kill at an arbitrary instant during save", "partial write(2), fsync reaching the medium"], ref="5 C04"),
 "C05": dict(text="Proof of the data-flow and frame clauses: the only bytes reaching the database file are the JSON of wrapped{1, wrapped DEK, AEAD ciphertext of the persisted view}; file mode 0600; open authenticates every byte that influences the result (version bound as associated data); the KEK is used only by open/create (ghost counter kekUses unchanged by every other function); layout pins forbid a plaintext index; audit entries have no value-typed field.",
   note="Cryptographic strength (ciphertext hides plaintext; flipped/truncated/spliced files are rejected) is ASSUMED (A-aead, A-keyset), not decided. Temporaries of atomicfile are outside /repo.",
   nd=["confidentiality/integrity of the AEAD itself", "bit-flip / truncation rejection (follows from A-aead, not explored)"], ref="5 C05"),
 "C06": dict(text="Proof over a ghost audit trail: WriteEntries appends exactly the given entry and syncs; checkAndLog writes exactly one record {principal, action, secret, version, decision}; every DB method discloses or mutates only after the authorized record is in the trail (call-site assertions at each kv mutator), denials are recorded, a failing sink fails the request with no value and no change, an unchanged conditional get writes nothing; layout pin of audit.Entry.",
   note="Sequential. 'Records of concurrent requests are never interleaved, truncated or lost' is NOT decided (WriteEntries runs outside any lock; rests on one Write per Encode and O_APPEND, assumed). Sink errors are assumed not to be API sentinel errors (A-sink-errors).",
   nd=["concurrent appends to a real audit file"], ref="5 C06"),
 "C07": dict(text="Proof that Rules.Allow/Rule.Allow return true iff one single rule lists the action and has a matching pattern (loop invariants, unbounded), and that Secret.Match builds exactly the canonical expression (?s)^quote(l0).*...quote(lk)$ from split(pattern,'*') and returns its verdict; never panics.",
   note="Relative to A-regexp: the canonical expression decides the glob relation and compiles for valid UTF-8 patterns. regexp's own semantics are not decided; the replay driver compares Match with a reference glob over all strings of length <= 3/4 over {a,*,/,.,\\n,+,e-acute} only to produce counterexamples (bounded, not counted as proved).",
   nd=["regexp engine semantics (A-regexp)"], ref="5 C07"),
 "C09": dict(text="Proof for DB.GetConditional: for an allowed caller ErrValueNotChanged is returned iff the secret exists and its active version equals the given one (compared inside one critical section), otherwise the active version and its bytes are returned, version 0 never yields not-modified, absent secrets yield not-found.",
   note="DB layer proved; the HTTP dispatch, Client and FileClient mappings are checked once the engine reaches server and client (listed as not decided until then).",
   nd=["HTTP handler dispatch and status mapping", "Client.do sentinel mapping", "FileClient.GetIfChanged"], ref="5 C09"),
 "C14": dict(text="Proof of the premises of the linearizability argument (DESIGN.md App. C-2): every call into kv happens with db.mu held (call-site assertions), each operation performs all its data accesses in one critical section, the lock is free on entry and released on every path (ghost held flag), results are freshly allocated (no reference into kv escapes), and each critical section satisfies the sequential specification (C02).",
   note="EXPLICITLY WEAKER than the property: interleavings are not explored and no race detector is run; linearizability follows from the proved premises by a written meta-argument only. The audit writer's unguarded encoder is not covered.",
   nd=["arbitrary interleavings", "data-race freedom of the audit writer"], ref="5 C14"),
}
checks = []
for p in props:
    pid = p["id"]
    if pid not in claimed:
        continue
    c = claimed[pid]
    checks.append({"property_id": pid, "quick_cmd": "./check %s" % pid, "thorough_cmd": "./check %s --tier thorough" % pid,
        "evidence_file": "/verif/evidence/%s.json" % pid, "engine": "govc",
        "level_claimed": {"category": "proof", "text": c["text"], "design_ref": c["ref"]},
        "level_note": c["note"], "technique": TECH})
    json.dump({"level": "proof", "not_decided": c["nd"], "assumptions": []}, open(os.path.join(V, "props", pid + ".json"), "w"), indent=1)
na = [{"property_id": p["id"], "reason": "engine does not yet reach the functions this property depends on (client store / server / CLI contracts not written yet); no other technique is substituted"} for p in props if p["id"] not in claimed]
m = {"version": 1, "setup_cmd": "./setup.sh",
 "hooks": {"guard": "verif", "enable": "govc loads /repo with -tags=verif; the tag adds only comment-only contracts_verif.go files (govc refuses a contract file that contains any declaration)",
   "baseline_off_cmd": "cd /repo && GOFLAGS=-mod=mod GOPROXY=off go test -vet=off -count=1 ./...",
   "source_commits": os.popen("git -C /repo log --format=%h --grep='^verif:'").read().split(), "add_only": True},
 "engines": [{"name": "govc", "path": "/verif/engine", "serves_properties": sorted(claimed), "kind_free_text": TECH}],
 "checks": checks,
 "notes": "See DESIGN.md. fix: commits in /repo repair eight genuine defects (known_findings.json); their reverse patches are canaries in selftest/.",
 "not_applicable": na}
json.dump(m, open(os.path.join(V, "MANIFEST.json"), "w"), indent=1)
print(len(checks), "checks,", len(na), "not applicable")
