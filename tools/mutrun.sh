#!/bin/bash
# usage: tools/mutrun.sh "<govc dev args>" patch...   -- prints CAUGHT/MISSED per patch
args=$1; shift
base=$(mktemp -d /tmp/govc-base-XXXXXX); trap 'rm -rf "$base"' EXIT
rsync -a --exclude .git /repo/ "$base/"; export MUT_BASE=$base
# sanity: the unmodified base must verify without load errors
for p in "$@"; do
  f=$p; [ -d "$p" ] && f=$p/patch.diff
  out=$("$(dirname "$0")/mutcheck.sh" $f $args 2>&1)
  n=$(echo "$out" | grep -cE "^   (sat|unknown)|^!!")
  if echo "$out" | grep -qE "PATCH FAILED|BUILD FAILED"; then echo "ERROR   $p: $(echo "$out" | tail -1)"; continue; fi
  if ! echo "$out" | grep -q "^loaded in"; then echo "ERROR   $p: $(echo "$out" | tail -1)"; continue; fi
  if [ "$n" -gt 0 ]; then echo "CAUGHT  $p ($n): $(echo "$out" | grep -E "^   (sat|unknown)|^!!" | head -2 | awk '{print $2,$3,$4,$5,$6}' | tr '\n' ';')"; else echo "MISSED  $p"; fi
done
