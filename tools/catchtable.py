#!/usr/bin/env python3
# usage: tools/catchtable.py <corpus-log> [<benign-log>]  -- rewrites the tables between the CATCH-TABLE markers of DESIGN.md
import sys, re, json, os, glob
V = os.path.dirname(os.path.dirname(os.path.abspath(__file__)))
def rows(log):
    out = []
    for l in open(log):
        m = re.match(r'(CAUGHT|MISSED|ERROR|QUIET|ALARM)\s+(\S+?):\s*(.*)', l.rstrip())
        if not m: continue
        verdict, item, rest = m.groups()
        checks = re.findall(r'(C\d\d)\(rc=(\d+)(?: viol=(\d+) replayed=(\d+))?\)\s*([^;]*);', rest)
        out.append((verdict, item, checks))
    return out
def clean(s):
    s = re.sub(r'^(FAILED|VACUOUS|MISSING|ENGINE-ERROR:?)\s*', lambda m: m.group(1).rstrip(':') + ' ', s.strip())
    s = re.sub(r'\s*\[(sat|unknown|unsat)\].*$', '', s)
    s = re.sub(r'contract error at \S+', 'contract error', s)
    return s.replace('|', '\\|')[:110]
md = []
def natkey(r):
    return [int(t) if t.isdigit() else t for t in re.split(r'(\d+)', r[1])]
cor = sorted(rows(sys.argv[1]), key=natkey)
def section(title, pred, describe):
    sel = [r for r in cor if pred(r[1])]
    if not sel: return
    md.append('**%s** (%d, %d caught)\n' % (title, len(sel), sum(1 for r in sel if r[0] == 'CAUGHT')))
    md.append('| change | what it does | check | verdict | first failing obligation | failing input replayed |')
    md.append('|---|---|---|---|---|---|')
    for verdict, item, checks in sel:
        name = os.path.basename(item.rstrip('/')).replace('.patch', '')
        first = True
        for (prop, rc, viol, rep, msg) in checks:
            md.append('| %s | %s | %s | %s | %s | %s |' % (name if first else '', describe(item) if first else '', prop,
                      'caught' if rc != '0' else 'quiet', clean(msg) if rc != '0' else '', ('yes' if rep and rep != '0' else 'no') if rc != '0' else ''))
            first = False
    md.append('')
def seeded_desc(item):
    try: return json.load(open(os.path.join(V, item, 'meta.json')))['summary'].replace('|', '\\|')[:160]
    except Exception: return ''
section('Canaries: the reverse of each fix', lambda i: 'canaries/' in i, lambda i: 'reverts the repair of ' + os.path.basename(i).replace('.patch',''))
section('Changes seeded by sub-agents from the property text alone', lambda i: i.startswith('seeded/'), seeded_desc)
section('Design mutants', lambda i: 'mutants/' in i, lambda i: '')
if len(sys.argv) > 2:
    ben = sorted(rows(sys.argv[2]), key=natkey)
    md.append('**Must-pass corpus: behaviour-preserving refactorings** (%d, %d quiet)\n' % (len(ben), sum(1 for r in ben if r[0] == 'QUIET')))
    md.append('| refactoring | checks run | result |')
    md.append('|---|---|---|')
    for verdict, item, checks in ben:
        md.append('| %s | %s | %s |' % (item.replace('selftest/benign/', '').replace('.patch', ''), ' '.join(c[0] for c in checks),
                  'quiet' if verdict == 'QUIET' else 'ALARM: ' + '; '.join(clean(c[4]) for c in checks if c[1] != '0')))
    md.append('')
p = os.path.join(V, 'DESIGN.md'); s = open(p).read()
n = lambda v: len(v) if isinstance(v, (list, dict)) else (v or 0)
st = ['| property | obligations | discharged | cover groups | structural | functions under contract | solver seconds (sum over workers) |', '|---|---|---|---|---|---|---|']
for f in sorted(glob.glob(os.path.join(V, 'evidence', 'C*.json'))):
    d = json.load(open(f)); c = d['coverage']
    st.append('| %s | %d | %d | %d | %d | %d | %.0f |' % (d['property_id'], n(c['obligations']), n(c['discharged']), n(c['cover_checks']), n(c['structural_obligations']), n(c['functions_under_contract']), c['solver_seconds']))
a = s.index('<!-- STATS-TABLE-BEGIN -->') + len('<!-- STATS-TABLE-BEGIN -->'); b = s.index('<!-- STATS-TABLE-END -->')
s = s[:a] + '\n' + '\n'.join(st) + '\n' + s[b:]
a = s.index('<!-- CATCH-TABLE-BEGIN -->') + len('<!-- CATCH-TABLE-BEGIN -->'); b = s.index('<!-- CATCH-TABLE-END -->')
open(p, 'w').write(s[:a] + '\n' + '\n'.join(md) + '\n' + s[b:])
print(len(cor), 'corpus rows')
