#!/bin/bash
# usage: tools/seedcheck.sh <patch-or-seeded-dir> <property>...
# Applies the patch to /repo, runs the registered quick checks for the given properties, undoes the patch.
p=$1; shift
f=$p; [ -d "$p" ] && f=$p/patch.diff
cd /verif
if ! git -C /repo apply "$(realpath $f)" 2>/dev/null; then
  if ! (cd /repo && patch -p1 -s < "$(realpath $f)"); then echo "ERROR $p: patch failed"; git -C /repo checkout -- . ; exit 3; fi
fi
res=""
for prop in "$@"; do
  out=$(./check $prop 2>&1); rc=$?
  nv=$(echo "$out" | grep -c "^VIOLATION")
  nr=$(echo "$out" | grep "^VIOLATION" | grep -vc "no-failing-input-found")
  first=$(echo "$out" | grep -E "^(FAILED|VACUOUS|ENGINE-ERROR|MISSING)" | head -2 | cut -c1-110 | tr '\n' ';')
  res="$res $prop:rc=$rc,viol=$nv,replayed=$nr [$first]"
done
git -C /repo checkout -- . ; git -C /repo clean -fdq 2>/dev/null
echo "$p =>$res"
