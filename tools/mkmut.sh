#!/bin/bash
# usage: tools/mkmut.sh <name> <file> <python-regex-or-literal old> <new>   -- creates selftest/mutants/<name>.patch by literal replacement (first occurrence)
set -e
name=$1; file=$2; old=$3; new=$4
d=$(mktemp -d /tmp/govc-mk-XXXXXX); trap 'rm -rf "$d"' EXIT
mkdir -p "$d/a/$(dirname $file)" "$d/b/$(dirname $file)"
cp /repo/$file "$d/a/$file"
python3 - "$d/a/$file" "$d/b/$file" "$old" "$new" <<'PY'
import sys
a,b,old,new=sys.argv[1:5]
s=open(a).read()
if old not in s: sys.exit("old text not found: "+old)
open(b,'w').write(s.replace(old,new,1))
PY
(cd "$d" && diff -u a/$file b/$file > /verif/selftest/mutants/$name.patch) || true
test -s /verif/selftest/mutants/$name.patch
