#!/usr/bin/env python3
# usage: tools/importseed.py <srcdir> <id> <property>
# Confirms a seeded change on a scratch copy of /repo (never /repo itself): the patch applies and builds, the
# unedited suite passes with it, the demo fails with it and passes without it. Then stores it under /verif/seeded/<id>/.
import sys, os, subprocess, shutil, tempfile, json, re, glob
src, sid, prop = sys.argv[1:4]
V = os.path.dirname(os.path.dirname(os.path.abspath(__file__)))
env = dict(os.environ, GOFLAGS='-mod=mod', GOPROXY='off')
def sh(cmd, cwd, timeout=1200):
    p = subprocess.run(cmd, shell=True, cwd=cwd, env=env, capture_output=True, text=True, timeout=timeout)
    return p.returncode, (p.stdout + p.stderr)
notes = open(os.path.join(src, 'notes.md')).read()
if 'GOEXPERIMENT=synctest' in notes: env['GOEXPERIMENT'] = 'synctest'
tests = [f for f in os.listdir(src) if f.endswith('_test.go')]
assert tests, 'no demo test'
def place(t):
    m = re.search(r'([\w/]+/)' + re.escape(t), notes)
    if m: return m.group(1).lstrip('/')
    pk = re.search(r'^package (\w+)', open(os.path.join(src, t)).read(), re.M).group(1)
    return {'db': 'db/', 'acl': 'acl/', 'audit': 'audit/', 'server': 'server/', 'server_test': 'server/', 'db_test': 'db/', 'setec': 'client/setec/', 'setec_test': 'client/setec/', 'main': 'cmd/setec/', 'acl_test': 'acl/', 'audit_test': 'audit/'}[pk]
d = tempfile.mkdtemp(prefix='seedconf-')
res = {}
try:
    sh('rsync -a --exclude .git /repo/ %s/' % d, '/')
    pkgs = set()
    for t in tests:
        dst = place(t); pkgs.add('./' + dst.rstrip('/') + '/'); shutil.copy(os.path.join(src, t), os.path.join(d, dst, t))
    run = 'go test ' + ('-race ' if 'go test -race' in notes else '') + '-vet=off -count=1 -timeout 600s ' + ' '.join(sorted(pkgs))
    rc, out = sh(run, d); res['demo_passes_on_clean'] = rc == 0
    if rc != 0: print(out[-1500:])
    rc, out = sh('patch -p1 -s < %s' % os.path.join(src, 'patch.diff'), d); assert rc == 0, 'patch failed: ' + out
    rc, out = sh('go build ./...', d); res['builds'] = rc == 0
    rc, out = sh(run, d); res['demo_fails_with_mutant'] = rc != 0; demo_out = out[-1200:]
    for t in tests: os.remove(os.path.join(d, place(t), t))
    rc, out = sh('go test -vet=off -count=1 -timeout 900s ./...', d); res['suite_passes_with_mutant'] = rc == 0
    if rc != 0: print(out[-1500:])
finally:
    shutil.rmtree(d)
print(sid, res)
if not all(res.values()):
    sys.exit('NOT CONFIRMED: ' + sid)
dst = os.path.join(V, 'seeded', sid); os.makedirs(dst, exist_ok=True)
for f in os.listdir(src): shutil.copy(os.path.join(src, f), os.path.join(dst, f))
first = [l for l in notes.splitlines() if l.strip()][0].lstrip('# ').strip()
files = re.findall(r'^\+\+\+ b/(\S+)', open(os.path.join(src, 'patch.diff')).read(), re.M)
json.dump({'id': sid, 'property': prop, 'round': int(os.environ.get('SEED_ROUND', '2')), 'summary': first, 'files': files, 'demo_files': [{'file': t, 'place_at': place(t) + t} for t in tests],
           'confirmed': res, 'base_commit': subprocess.check_output(['git', '-C', '/repo', 'rev-parse', '--short', 'HEAD'], text=True).strip(),
           'demo_output_with_mutant': demo_out}, open(os.path.join(dst, 'meta.json'), 'w'), indent=1)
