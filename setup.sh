#!/bin/sh
# Builds the verifier offline from files on disk only.
set -e
cd "$(dirname "$0")/engine"
export GOFLAGS=-mod=mod GOPROXY=off
mkdir -p ../bin
go build -o ../bin/govc .
