package main

// Contract language: lexer/parser for spec expressions and contract files.

import (
	"fmt"
	"go/scanner"
	"go/token"
	"os"
	"regexp"
	"strings"
)

type Binder struct {
	Name string
	Type string
}

type Expr struct {
	Op      string // ident int str sel index call unop binop forall exists
	Name    string // ident name, selector field, operator
	Args    []*Expr
	Binders []Binder
	Src     string
}

func (e *Expr) String() string {
	switch e.Op {
	case "ident", "int":
		return e.Name
	case "str":
		return fmt.Sprintf("%q", e.Name)
	case "sel":
		return e.Args[0].String() + "." + e.Name
	case "index":
		return e.Args[0].String() + "[" + e.Args[1].String() + "]"
	case "call":
		var as []string
		for _, a := range e.Args {
			as = append(as, a.String())
		}
		return e.Name + "(" + strings.Join(as, ", ") + ")"
	case "unop":
		return e.Name + e.Args[0].String()
	case "binop":
		return "(" + e.Args[0].String() + " " + e.Name + " " + e.Args[1].String() + ")"
	case "forall", "exists":
		var bs []string
		for _, b := range e.Binders {
			bs = append(bs, b.Name+" "+b.Type)
		}
		return "(" + e.Op + " " + strings.Join(bs, ", ") + " :: " + e.Args[0].String() + ")"
	}
	return "?"
}

type tok struct {
	t   token.Token
	lit string
}

type parser struct {
	toks []tok
	pos  int
	src  string
}

func lexSpec(src string) ([]tok, error) {
	s := src
	s = strings.ReplaceAll(s, "<==>", " __IFF__ ")
	s = strings.ReplaceAll(s, "==>", " __IMP__ ")
	s = strings.ReplaceAll(s, "::", " __DC__ ")
	fset := token.NewFileSet()
	f := fset.AddFile("", fset.Base(), len(s))
	var sc scanner.Scanner
	var errs []string
	sc.Init(f, []byte(s), func(pos token.Position, msg string) { errs = append(errs, msg) }, 0)
	var out []tok
	for {
		_, t, lit := sc.Scan()
		if t == token.EOF {
			break
		}
		if t == token.SEMICOLON && (lit == "\n" || lit == "") {
			continue
		}
		out = append(out, tok{t, lit})
	}
	if len(errs) > 0 {
		return nil, fmt.Errorf("lex: %s", strings.Join(errs, "; "))
	}
	return out, nil
}

func parseExpr(src string) (*Expr, error) {
	toks, err := lexSpec(src)
	if err != nil {
		return nil, fmt.Errorf("%v in %q", err, src)
	}
	p := &parser{toks: toks, src: src}
	var e *Expr
	func() {
		defer func() {
			if r := recover(); r != nil {
				if pe, ok := r.(parseErr); ok {
					err = fmt.Errorf("%s in %q", string(pe), src)
					return
				}
				panic(r)
			}
		}()
		e = p.expr()
		if p.pos < len(p.toks) {
			p.fail("unexpected token %q", p.peek().String())
		}
	}()
	if e != nil {
		e.Src = src
	}
	return e, err
}

type parseErr string

func (p *parser) fail(f string, a ...any) { panic(parseErr(fmt.Sprintf(f, a...))) }

func (t tok) String() string {
	if t.lit != "" {
		return t.lit
	}
	return t.t.String()
}

func (p *parser) peek() tok {
	if p.pos < len(p.toks) {
		return p.toks[p.pos]
	}
	return tok{t: token.EOF}
}
func (p *parser) next() tok { t := p.peek(); p.pos++; return t }
func (p *parser) isIdent(name string) bool {
	t := p.peek()
	return t.t == token.IDENT && t.lit == name
}
func (p *parser) expect(t token.Token) tok {
	x := p.next()
	if x.t != t {
		p.fail("expected %s, got %q", t, x.String())
	}
	return x
}

func (p *parser) expr() *Expr {
	return p.iff()
}

func (p *parser) quant() *Expr {
	if p.isIdent("forall") || p.isIdent("exists") {
		op := p.next().lit
		var bs []Binder
		for {
			name := p.expect(token.IDENT).lit
			var ty []string
			for !p.isIdent("__DC__") && p.peek().t != token.COMMA && p.peek().t != token.EOF {
				ty = append(ty, p.next().String())
			}
			bs = append(bs, Binder{name, strings.Join(ty, "")})
			if p.peek().t == token.COMMA {
				p.next()
				continue
			}
			break
		}
		if !p.isIdent("__DC__") {
			p.fail("expected :: in quantifier")
		}
		p.next()
		body := p.expr()
		return &Expr{Op: op, Binders: bs, Args: []*Expr{body}}
	}
	return nil
}

func (p *parser) iff() *Expr {
	l := p.impl()
	for p.isIdent("__IFF__") {
		p.next()
		r := p.impl()
		l = &Expr{Op: "binop", Name: "<==>", Args: []*Expr{l, r}}
	}
	return l
}

func (p *parser) impl() *Expr {
	l := p.or()
	if p.isIdent("__IMP__") {
		p.next()
		r := p.impl()
		return &Expr{Op: "binop", Name: "==>", Args: []*Expr{l, r}}
	}
	return l
}

func (p *parser) or() *Expr {
	l := p.and()
	for p.peek().t == token.LOR {
		p.next()
		l = &Expr{Op: "binop", Name: "||", Args: []*Expr{l, p.and()}}
	}
	return l
}

func (p *parser) and() *Expr {
	l := p.cmp()
	for p.peek().t == token.LAND {
		p.next()
		l = &Expr{Op: "binop", Name: "&&", Args: []*Expr{l, p.cmp()}}
	}
	return l
}

func (p *parser) cmp() *Expr {
	l := p.add()
	for {
		switch p.peek().t {
		case token.EQL, token.NEQ, token.LSS, token.LEQ, token.GTR, token.GEQ:
			op := p.next().t.String()
			l = &Expr{Op: "binop", Name: op, Args: []*Expr{l, p.add()}}
		default:
			return l
		}
	}
}

func (p *parser) add() *Expr {
	l := p.mul()
	for p.peek().t == token.ADD || p.peek().t == token.SUB {
		op := p.next().t.String()
		l = &Expr{Op: "binop", Name: op, Args: []*Expr{l, p.mul()}}
	}
	return l
}

func (p *parser) mul() *Expr {
	l := p.unary()
	for p.peek().t == token.MUL || p.peek().t == token.QUO || p.peek().t == token.REM {
		op := p.next().t.String()
		l = &Expr{Op: "binop", Name: op, Args: []*Expr{l, p.unary()}}
	}
	return l
}

func (p *parser) unary() *Expr {
	switch p.peek().t {
	case token.NOT:
		p.next()
		return &Expr{Op: "unop", Name: "!", Args: []*Expr{p.unary()}}
	case token.SUB:
		p.next()
		return &Expr{Op: "unop", Name: "-", Args: []*Expr{p.unary()}}
	case token.MUL:
		p.next()
		return &Expr{Op: "unop", Name: "*", Args: []*Expr{p.unary()}}
	}
	return p.postfix()
}

func (p *parser) postfix() *Expr {
	e := p.primary()
	for {
		switch p.peek().t {
		case token.PERIOD:
			p.next()
			name := p.expect(token.IDENT).lit
			e = &Expr{Op: "sel", Name: name, Args: []*Expr{e}}
		case token.LBRACK:
			p.next()
			i := p.expr()
			p.expect(token.RBRACK)
			e = &Expr{Op: "index", Args: []*Expr{e, i}}
		case token.LPAREN:
			p.next()
			var args []*Expr
			for p.peek().t != token.RPAREN {
				args = append(args, p.expr())
				if p.peek().t == token.COMMA {
					p.next()
				} else {
					break
				}
			}
			p.expect(token.RPAREN)
			name := ""
			switch e.Op {
			case "ident":
				name = e.Name
			case "sel":
				if e.Args[0].Op == "ident" {
					name = e.Args[0].Name + "." + e.Name
				}
			}
			if name == "" {
				p.fail("call of non-name")
			}
			e = &Expr{Op: "call", Name: name, Args: args}
		default:
			return e
		}
	}
}

func (p *parser) primary() *Expr {
	if p.isIdent("forall") || p.isIdent("exists") {
		return p.quant()
	}
	t := p.next()
	switch t.t {
	case token.IDENT:
		return &Expr{Op: "ident", Name: t.lit}
	case token.INT:
		return &Expr{Op: "int", Name: t.lit}
	case token.STRING:
		s := t.lit
		if len(s) >= 2 {
			if s[0] == '`' {
				s = s[1 : len(s)-1]
			} else {
				var err error
				s, err = unquote(s)
				if err != nil {
					p.fail("bad string %s", t.lit)
				}
			}
		}
		return &Expr{Op: "str", Name: s}
	case token.LPAREN:
		e := p.expr()
		p.expect(token.RPAREN)
		return e
	case token.MAP, token.FUNC, token.STRUCT, token.INTERFACE:
		p.fail("type syntax not allowed in expression")
	}
	p.fail("unexpected token %q", t.String())
	return nil
}

func unquote(s string) (string, error) {
	var out string
	_, err := fmt.Sscanf(s, "%q", &out)
	return out, err
}

// ---------------------------------------------------------------- contract files

type Clause struct {
	Kind  string // requires ensures invariant assert panics axiom
	Tags  []string
	Label string
	E     *Expr
	Src   string
	File  string
	Line  int
}

type LoopSpec struct {
	Ordinal    int
	Invariants []*Clause
	Progress   []*Clause // checked at every back edge against the state at the start of the iteration
}

type CallAssert struct {
	Callee string
	C      *Clause
}

type FuncContract struct {
	Key          string
	Params       []string
	Results      []string
	Requires     []*Clause
	Ensures      []*Clause
	Modifies     []string
	Loops        map[int]*LoopSpec
	AtCalls      []*CallAssert
	Trusted      bool
	Panics       *Clause // condition under which a panic is the specified outcome
	Inline       bool    // force inlining at call sites even though a contract exists
	Pure         *Clause // frame condition: writes nothing
	FreshResult  bool    // reference results are freshly allocated, non-nil objects
	Interference []*Interference
	Pkg          string // package path the contract was declared in ("" for stubs)
	File         string
	Line         int
}

// Interference models other goroutines acting between this function's calls
// (a rely condition): before each call matching At, the heap arrays written by
// the Writers are havocked and Assume (old = before the havoc) is assumed.
type Interference struct {
	At      []string
	Writers []string
	Assume  *Clause
	// Linking names the object of the relying function that the writer acts on (an expression over the
	// relying function's parameters, e.g. s.db); empty: the first pointer parameter whose type the writer shares.
	Linking *Clause
	// Observe is assumed after the havoc like Assume but is not a guarantee of the writers: it defines
	// ghost snapshots of the state right after the interference (e.g. midWatchers == len(...)).
	Observe *Clause
}

type SpecFunc struct {
	Name    string
	Params  []Binder
	Result  string // "" for pred (bool)
	Body    *Expr
	Uninter bool
	Opaque  bool // body hidden outside the declaring package
	Pkg     string
}

type GhostVar struct {
	Name string
	Type string
}

type StructDecl struct {
	Kind string // layout, callers, pin, typeshape, nocall
	Tags []string
	Args string
	Pkg  string
	File string
	Line int
}

type Lemma struct {
	Tags  []string
	Label string
	E     *Expr
	Pkg   string
	Src   string
}

type SpecSet struct {
	Funcs   map[string]*FuncContract // key: qualified function name
	SpecFns map[string]*SpecFunc
	Sorts   map[string]bool
	Ghosts  map[string]*GhostVar
	Axioms  []*Clause
	Structs []*StructDecl
	Lemmas  []*Lemma
	Order   []string
}

func newSpecSet() *SpecSet {
	return &SpecSet{Funcs: map[string]*FuncContract{}, SpecFns: map[string]*SpecFunc{}, Sorts: map[string]bool{}, Ghosts: map[string]*GhostVar{}}
}

var clauseKeywords = map[string]bool{
	"requires": true, "ensures": true, "modifies": true, "trusted": true, "panics": true, "loop": true,
	"invariant": true, "progress": true, "at": true, "func": true, "pred": true, "fn": true, "ufn": true, "sort": true,
	"ghost": true, "axiom": true, "layout": true, "callers": true, "pin": true, "typeshape": true, "loopexits": true,
	"lemma": true, "inline": true, "pure": true, "nocall": true, "guarded": true, "package": true, "freshresult": true, "opaque": true, "interference": true,
}

var tagRe = regexp.MustCompile(`^C\d\d(,C\d\d)*$`)

func parseLabel(s string) (tags []string, label, rest string) {
	s = strings.TrimSpace(s)
	if !strings.HasPrefix(s, "[") {
		return nil, "", s
	}
	end := strings.Index(s, "]")
	if end < 0 {
		return nil, "", s
	}
	inner := strings.Fields(s[1:end])
	rest = strings.TrimSpace(s[end+1:])
	if len(inner) > 0 && tagRe.MatchString(inner[0]) {
		tags = strings.Split(inner[0], ",")
		inner = inner[1:]
	}
	label = strings.Join(inner, " ")
	return
}

type specLine struct {
	text string
	line int
}

// ParseSpecFile parses a contract file. If goComments is true the file is a Go
// file whose //@ comment lines carry the contracts.
func (ss *SpecSet) ParseSpecFile(path string, goComments bool, pkgPath string) error {
	data, err := os.ReadFile(path)
	if err != nil {
		return err
	}
	var lines []specLine
	for i, l := range strings.Split(string(data), "\n") {
		if goComments {
			t := strings.TrimSpace(l)
			if !strings.HasPrefix(t, "//@") {
				continue
			}
			l = strings.TrimPrefix(t, "//@")
		}
		if j := strings.Index(l, "//"); j >= 0 && !strings.Contains(l[:j], "\"") {
			l = l[:j]
		} else if j := strings.Index(l, " // "); j >= 0 && strings.Count(l[:j], "\"")%2 == 0 {
			l = l[:j]
		}
		if strings.TrimSpace(l) == "" {
			continue
		}
		lines = append(lines, specLine{l, i + 1})
	}
	// group into items: a line starting with a keyword begins an item
	type item struct {
		kw   string
		text string
		line int
	}
	var items []item
	for _, l := range lines {
		f := strings.Fields(l.text)
		kw := f[0]
		if clauseKeywords[kw] {
			items = append(items, item{kw, strings.TrimSpace(strings.TrimPrefix(strings.TrimSpace(l.text), kw)), l.line})
		} else {
			if len(items) == 0 {
				return fmt.Errorf("%s:%d: text outside of any declaration: %s", path, l.line, l.text)
			}
			items[len(items)-1].text += " " + strings.TrimSpace(l.text)
		}
	}
	var cur *FuncContract
	var curLoop *LoopSpec
	mkClause := func(kind string, it item) (*Clause, error) {
		tags, label, rest := parseLabel(it.text)
		e, err := parseExpr(rest)
		if err != nil {
			return nil, fmt.Errorf("%s:%d: %v", path, it.line, err)
		}
		return &Clause{Kind: kind, Tags: tags, Label: label, E: e, Src: rest, File: path, Line: it.line}, nil
	}
	for _, it := range items {
		switch it.kw {
		case "package":
			pkgPath = strings.Trim(it.text, "\" ")
		case "sort":
			ss.Sorts[it.text] = true
		case "ghost":
			f := strings.Fields(it.text)
			if len(f) != 2 {
				return fmt.Errorf("%s:%d: ghost NAME TYPE", path, it.line)
			}
			ss.Ghosts[f[0]] = &GhostVar{f[0], f[1]}
		case "opaque":
			rest := strings.TrimSpace(it.text)
			kw := strings.Fields(rest)[0]
			sf, err := parseSpecFunc(kw, strings.TrimSpace(strings.TrimPrefix(rest, kw)))
			if err != nil {
				return fmt.Errorf("%s:%d: %v", path, it.line, err)
			}
			sf.Pkg = pkgPath
			sf.Opaque = true
			if _, dup := ss.SpecFns[sf.Name]; dup {
				return fmt.Errorf("%s:%d: duplicate spec function %s", path, it.line, sf.Name)
			}
			ss.SpecFns[sf.Name] = sf
		case "ufn", "pred", "fn":
			sf, err := parseSpecFunc(it.kw, it.text)
			if err != nil {
				return fmt.Errorf("%s:%d: %v", path, it.line, err)
			}
			sf.Pkg = pkgPath
			if _, dup := ss.SpecFns[sf.Name]; dup {
				return fmt.Errorf("%s:%d: duplicate spec function %s", path, it.line, sf.Name)
			}
			ss.SpecFns[sf.Name] = sf
		case "axiom":
			c, err := mkClause("axiom", it)
			if err != nil {
				return err
			}
			ss.Axioms = append(ss.Axioms, c)
		case "lemma":
			tags, label, rest := parseLabel(it.text)
			e, err := parseExpr(rest)
			if err != nil {
				return fmt.Errorf("%s:%d: %v", path, it.line, err)
			}
			ss.Lemmas = append(ss.Lemmas, &Lemma{Tags: tags, Label: label, E: e, Pkg: pkgPath, Src: rest})
		case "layout", "callers", "pin", "typeshape", "nocall", "loopexits", "guarded":
			tags, label, rest := parseLabel(it.text)
			_ = label
			ss.Structs = append(ss.Structs, &StructDecl{Kind: it.kw, Tags: tags, Args: strings.TrimSpace(label + " " + rest), Pkg: pkgPath, File: path, Line: it.line})
		case "func":
			fc, err := parseFuncHeader(it.text)
			if err != nil {
				return fmt.Errorf("%s:%d: %v", path, it.line, err)
			}
			fc.Pkg = pkgPath
			fc.File, fc.Line = path, it.line
			if goComments && pkgPath != "" && !strings.Contains(fc.Key, "/") {
				fc.Key = qualifyKey(pkgPath, fc.Key)
			}
			if _, dup := ss.Funcs[fc.Key]; dup {
				return fmt.Errorf("%s:%d: duplicate contract for %s", path, it.line, fc.Key)
			}
			ss.Funcs[fc.Key] = fc
			ss.Order = append(ss.Order, fc.Key)
			cur, curLoop = fc, nil
		case "requires", "ensures", "panics":
			if cur == nil {
				return fmt.Errorf("%s:%d: %s outside func", path, it.line, it.kw)
			}
			c, err := mkClause(it.kw, it)
			if err != nil {
				return err
			}
			switch it.kw {
			case "requires":
				cur.Requires = append(cur.Requires, c)
			case "ensures":
				cur.Ensures = append(cur.Ensures, c)
			case "panics":
				cur.Panics = c
			}
		case "modifies":
			if cur == nil {
				return fmt.Errorf("%s:%d: modifies outside func", path, it.line)
			}
			for _, m := range strings.Split(it.text, ",") {
				if m = strings.TrimSpace(m); m != "" {
					cur.Modifies = append(cur.Modifies, m)
				}
			}
		case "trusted":
			if cur == nil {
				return fmt.Errorf("%s:%d: trusted outside func", path, it.line)
			}
			cur.Trusted = true
		case "interference":
			if cur == nil {
				return fmt.Errorf("%s:%d: interference outside func", path, it.line)
			}
			t := it.text
			ia, iw, is := strings.Index(t, "at "), strings.Index(t, " writers "), strings.Index(t, " assume ")
			if ia != 0 || iw < 0 || is < iw {
				return fmt.Errorf("%s:%d: expected 'interference at A, B writers W1, W2 assume EXPR'", path, it.line)
			}
			split := func(x string) []string {
				var out []string
				for _, p := range strings.Split(x, ",") {
					if p = strings.TrimSpace(p); p != "" {
						out = append(out, p)
					}
				}
				return out
			}
			at := t[is+len(" assume "):]
			var obs *Clause
			if io := strings.Index(at, " observe "); io >= 0 {
				oc, err := mkClause("observe", item{"observe", at[io+len(" observe "):], it.line})
				if err != nil {
					return err
				}
				obs = oc
				at = at[:io]
			}
			c, err := mkClause("assume", item{"assume", at, it.line})
			if err != nil {
				return err
			}
			ws := t[iw+len(" writers ") : is]
			var link *Clause
			if il := strings.Index(ws, " linking "); il >= 0 {
				lc, err := mkClause("linking", item{"linking", ws[il+len(" linking "):], it.line})
				if err != nil {
					return err
				}
				link = lc
				ws = ws[:il]
			}
			cur.Interference = append(cur.Interference, &Interference{At: split(t[3:iw]), Writers: split(ws), Assume: c, Linking: link, Observe: obs})
		case "freshresult":
			if cur == nil {
				return fmt.Errorf("%s:%d: freshresult outside func", path, it.line)
			}
			cur.FreshResult = true
		case "inline":
			if cur == nil {
				return fmt.Errorf("%s:%d: inline outside func", path, it.line)
			}
			cur.Inline = true
		case "pure":
			// pure [tags label]: the function (with everything it calls) writes no heap location that existed
			// before the call and no ghost: it has no state shared between calls
			if cur == nil {
				return fmt.Errorf("%s:%d: pure outside func", path, it.line)
			}
			tags, label, _ := parseLabel(it.text)
			cur.Pure = &Clause{Kind: "pure", Tags: tags, Label: label, Src: "pure", File: path, Line: it.line}
		case "loop":
			if cur == nil {
				return fmt.Errorf("%s:%d: loop outside func", path, it.line)
			}
			var n int
			if _, err := fmt.Sscanf(it.text, "%d", &n); err != nil {
				return fmt.Errorf("%s:%d: loop ORDINAL", path, it.line)
			}
			curLoop = &LoopSpec{Ordinal: n}
			if cur.Loops == nil {
				cur.Loops = map[int]*LoopSpec{}
			}
			cur.Loops[n] = curLoop
		case "invariant":
			if curLoop == nil {
				return fmt.Errorf("%s:%d: invariant outside loop", path, it.line)
			}
			c, err := mkClause("invariant", it)
			if err != nil {
				return err
			}
			curLoop.Invariants = append(curLoop.Invariants, c)
		case "progress":
			if curLoop == nil {
				return fmt.Errorf("%s:%d: progress outside loop", path, it.line)
			}
			c, err := mkClause("progress", it)
			if err != nil {
				return err
			}
			curLoop.Progress = append(curLoop.Progress, c)
		case "at":
			// at call CALLEE: assert [label] expr
			if cur == nil {
				return fmt.Errorf("%s:%d: at outside func", path, it.line)
			}
			t := strings.TrimSpace(strings.TrimPrefix(it.text, "call"))
			i := strings.Index(t, ": assert")
			if i < 0 {
				return fmt.Errorf("%s:%d: expected 'at call NAME: assert ...'", path, it.line)
			}
			callee := strings.TrimSpace(t[:i])
			c, err := mkClause("assert", item{"assert", strings.TrimSpace(t[i+len(": assert"):]), it.line})
			if err != nil {
				return err
			}
			cur.AtCalls = append(cur.AtCalls, &CallAssert{Callee: callee, C: c})
		}
	}
	return nil
}

// qualifyKey turns "(*kv).put" into "(*PKG.kv).put" and "newKV" into "PKG.newKV".
func qualifyKey(pkg, key string) string {
	if strings.HasPrefix(key, "(*") {
		return "(*" + pkg + "." + key[2:]
	}
	if strings.HasPrefix(key, "(") {
		return "(" + pkg + "." + key[1:]
	}
	return pkg + "." + key
}

var funcHdrRe = regexp.MustCompile(`^(\S+?)\s*\(([^)]*)\)\s*(?:\(([^)]*)\))?\s*$`)

func parseFuncHeader(s string) (*FuncContract, error) {
	// KEY(p1, p2) (r1, r2); KEY may itself contain parentheses: (*kv).put, param:(T).M.x
	s = strings.TrimSpace(s)
	type grp struct{ a, b int }
	var groups []grp
	depth, start := 0, -1
	for i := 0; i < len(s); i++ {
		switch s[i] {
		case '(':
			if depth == 0 {
				start = i
			}
			depth++
		case ')':
			depth--
			if depth == 0 && start >= 0 {
				groups = append(groups, grp{start, i})
			}
		}
	}
	if len(groups) == 0 || depth != 0 || groups[len(groups)-1].b != len(s)-1 {
		return nil, fmt.Errorf("bad func header %q", s)
	}
	split := func(x string) []string {
		var out []string
		for _, p := range strings.Split(x, ",") {
			if p = strings.TrimSpace(p); p != "" {
				out = append(out, strings.Fields(p)[0])
			}
		}
		return out
	}
	last := groups[len(groups)-1]
	params, results := last, grp{-1, -1}
	if len(groups) >= 2 {
		prev := groups[len(groups)-2]
		between := s[prev.b+1 : last.a]
		if strings.TrimSpace(between) == "" && len(between) > 0 {
			params, results = prev, last
		}
	}
	fc := &FuncContract{Key: strings.TrimSpace(s[:params.a]), Params: split(s[params.a+1 : params.b])}
	if results.a >= 0 {
		fc.Results = split(s[results.a+1 : results.b])
	}
	if fc.Key == "" {
		return nil, fmt.Errorf("bad func header %q", s)
	}
	return fc, nil
}

func parseSpecFunc(kw, s string) (*SpecFunc, error) {
	i := strings.Index(s, "(")
	if i < 0 {
		return nil, fmt.Errorf("bad %s declaration %q", kw, s)
	}
	name := strings.TrimSpace(s[:i])
	// find matching paren
	depth, j := 0, i
	for ; j < len(s); j++ {
		if s[j] == '(' {
			depth++
		} else if s[j] == ')' {
			depth--
			if depth == 0 {
				break
			}
		}
	}
	if j >= len(s) {
		return nil, fmt.Errorf("bad %s declaration %q", kw, s)
	}
	sf := &SpecFunc{Name: name, Uninter: kw == "ufn"}
	for _, p := range strings.Split(s[i+1:j], ",") {
		p = strings.TrimSpace(p)
		if p == "" {
			continue
		}
		f := strings.Fields(p)
		if len(f) < 2 {
			return nil, fmt.Errorf("parameter %q needs a type", p)
		}
		sf.Params = append(sf.Params, Binder{f[0], strings.Join(f[1:], "")})
	}
	rest := strings.TrimSpace(s[j+1:])
	if kw == "ufn" {
		sf.Result = rest
		if rest == "" {
			sf.Result = "bool"
		}
		return sf, nil
	}
	b := strings.Index(rest, "{")
	if b < 0 || !strings.HasSuffix(rest, "}") {
		return nil, fmt.Errorf("%s %s needs a { body }", kw, name)
	}
	sf.Result = strings.TrimSpace(rest[:b])
	if kw == "pred" {
		sf.Result = "bool"
	}
	body, err := parseExpr(rest[b+1 : len(rest)-1])
	if err != nil {
		return nil, err
	}
	sf.Body = body
	return sf, nil
}
