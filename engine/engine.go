package main

// Loading /repo, building SSA, verifying functions against their contracts.

import (
	"fmt"
	"go/ast"
	"go/token"
	"go/types"
	"os"
	"path/filepath"
	"sort"
	"strings"
	"sync"
	"time"

	"golang.org/x/tools/go/packages"
	"golang.org/x/tools/go/ssa"
	"golang.org/x/tools/go/ssa/ssautil"
)

type Engine struct {
	repo          string
	fset          *token.FileSet
	prog          *ssa.Program
	pkgs          []*packages.Package
	typesPkgs     map[string]*types.Package
	ssaPkgs       map[string]*ssa.Package
	specs         *SpecSet
	funcs         map[string][]*ssa.Function // key (type args stripped) -> functions/instances
	loopCache     map[*ssa.Function]*loopInfo
	ipdomCache    map[*ssa.Function]map[*ssa.BasicBlock]*ssa.BasicBlock
	writesCache   map[*ssa.Function]map[string]*Sort
	writesBusy    map[*ssa.Function]bool
	typeIDs       map[string]int
	fnIDs         map[*ssa.Function]int
	errVars       map[*Term]bool
	unknownCalls  map[string]int
	formats       map[string]string
	loadSeconds   float64
	contractFiles []string
	timeoutS      int
	seed          int
	thorough      bool
	guardCache    []*guardDecl
}

func (eng *Engine) pos(p token.Pos) string {
	if !p.IsValid() {
		return ""
	}
	pp := eng.fset.Position(p)
	return fmt.Sprintf("%s:%d", strings.TrimPrefix(pp.Filename, eng.repo+"/"), pp.Line)
}

func (eng *Engine) typeID(t types.Type) int {
	k := typeKey(t)
	if id, ok := eng.typeIDs[k]; ok {
		return id
	}
	id := len(eng.typeIDs) + 1
	eng.typeIDs[k] = id
	return id
}

func (eng *Engine) fnID(f *ssa.Function) int {
	if id, ok := eng.fnIDs[f]; ok {
		return id
	}
	id := len(eng.fnIDs) + 1
	eng.fnIDs[f] = id
	return id
}

func (eng *Engine) contractFor(f *ssa.Function) *FuncContract {
	return eng.specs.Funcs[funcKey(f)]
}

// Load type-checks the given package patterns of the repository with the
// verif tag and builds SSA for them and their dependencies.
func Load(repo string, patterns []string) (*Engine, error) {
	t0 := time.Now()
	eng := &Engine{repo: repo, typesPkgs: map[string]*types.Package{}, ssaPkgs: map[string]*ssa.Package{},
		funcs: map[string][]*ssa.Function{}, loopCache: map[*ssa.Function]*loopInfo{}, ipdomCache: map[*ssa.Function]map[*ssa.BasicBlock]*ssa.BasicBlock{},
		writesCache: map[*ssa.Function]map[string]*Sort{}, writesBusy: map[*ssa.Function]bool{},
		typeIDs: map[string]int{}, fnIDs: map[*ssa.Function]int{}, errVars: map[*Term]bool{}, unknownCalls: map[string]int{}, formats: map[string]string{}}
	eng.fset = token.NewFileSet()
	cfg := &packages.Config{
		Mode:       packages.NeedName | packages.NeedFiles | packages.NeedCompiledGoFiles | packages.NeedImports | packages.NeedDeps | packages.NeedTypes | packages.NeedSyntax | packages.NeedTypesInfo | packages.NeedTypesSizes | packages.NeedModule,
		Dir:        repo,
		Fset:       eng.fset,
		BuildFlags: []string{"-tags=verif"},
		Env:        append(os.Environ(), "GOFLAGS=-mod=mod", "GOPROXY=off"),
	}
	pkgs, err := packages.Load(cfg, patterns...)
	if err != nil {
		return nil, err
	}
	var errs []string
	packages.Visit(pkgs, nil, func(p *packages.Package) {
		for _, e := range p.Errors {
			errs = append(errs, e.Error())
		}
		if p.Types != nil {
			eng.typesPkgs[p.PkgPath] = p.Types
		}
	})
	if len(errs) > 0 {
		return nil, fmt.Errorf("loading %v: %s", patterns, strings.Join(errs, "; "))
	}
	eng.pkgs = pkgs
	prog, _ := ssautil.AllPackages(pkgs, ssa.InstantiateGenerics|ssa.GlobalDebug)
	eng.prog = prog
	for _, p := range prog.AllPackages() {
		if strings.HasPrefix(p.Pkg.Path(), modPath) {
			p.Build()
		}
		eng.ssaPkgs[p.Pkg.Path()] = p
	}
	// contracts: comment-only files guarded by the verif tag
	eng.specs = newSpecSet()
	var seen = map[string]bool{}
	packages.Visit(pkgs, nil, func(p *packages.Package) {
		if !strings.HasPrefix(p.PkgPath, modPath) || seen[p.PkgPath] {
			return
		}
		seen[p.PkgPath] = true
		for i, f := range p.CompiledGoFiles {
			if filepath.Base(f) != "contracts_verif.go" {
				continue
			}
			if i < len(p.Syntax) {
				if err2 := checkCommentOnly(p, f); err2 != nil {
					err = err2
					return
				}
			}
			if e := eng.specs.ParseSpecFile(f, true, p.PkgPath); e != nil {
				err = e
				return
			}
			eng.contractFiles = append(eng.contractFiles, f)
		}
	})
	if err != nil {
		return nil, err
	}
	eng.loadSeconds = time.Since(t0).Seconds()
	return eng, nil
}

// checkCommentOnly refuses contract files that contain any declaration: the
// verif tag must not be able to change compiled code.
func checkCommentOnly(p *packages.Package, file string) error {
	for _, f := range p.Syntax {
		if p.Fset.Position(f.Pos()).Filename == file {
			if len(f.Decls) != 0 {
				return fmt.Errorf("%s: contract file must be comment-only (found %d declarations)", file, len(f.Decls))
			}
			_ = ast.File{}
			return nil
		}
	}
	return nil
}

func (eng *Engine) LoadStubs(dir string) error {
	files, _ := filepath.Glob(filepath.Join(dir, "*.spec"))
	sort.Strings(files)
	for _, f := range files {
		if err := eng.specs.ParseSpecFile(f, false, ""); err != nil {
			return err
		}
	}
	return nil
}

// indexFuncs maps keys to SSA functions, including closures and generic instances.
func (eng *Engine) indexFuncs() {
	all := ssautil.AllFunctions(eng.prog)
	for f := range all {
		if f.Blocks == nil {
			continue
		}
		if !strings.HasPrefix(pkgPathOf(f), modPath) {
			continue
		}
		if f.Synthetic != "" && !strings.Contains(f.Synthetic, "instance") && !strings.Contains(f.Synthetic, "instantiation") {
			continue
		}
		k := funcKey(f)
		eng.funcs[k] = append(eng.funcs[k], f)
	}
	// methods of generic types are not found by reachability: add them from the type declarations
	have := map[*ssa.Function]bool{}
	for _, l := range eng.funcs {
		for _, f := range l {
			have[f] = true
		}
	}
	for path, tp := range eng.typesPkgs {
		if !strings.HasPrefix(path, modPath) {
			continue
		}
		sc := tp.Scope()
		for _, name := range sc.Names() {
			tn, ok := sc.Lookup(name).(*types.TypeName)
			if !ok {
				continue
			}
			named, ok := tn.Type().(*types.Named)
			if !ok {
				continue
			}
			for i := 0; i < named.NumMethods(); i++ {
				f := eng.prog.FuncValue(named.Method(i))
				if f == nil || f.Blocks == nil || have[f] {
					continue
				}
				have[f] = true
				k := funcKey(f)
				eng.funcs[k] = append(eng.funcs[k], f)
			}
		}
	}
	for k := range eng.funcs {
		fs := eng.funcs[k]
		sort.Slice(fs, func(i, j int) bool { return fs[i].String() < fs[j].String() })
	}
}

// cachedWrites returns the heap arrays f may write (transitively).
func (eng *Engine) cachedWrites(f *ssa.Function) map[string]*Sort {
	if ws, ok := eng.writesCache[f]; ok {
		return ws
	}
	if eng.writesBusy[f] {
		return map[string]*Sort{} // recursion: fixpoint not needed for this code base (reported as assumption)
	}
	eng.writesBusy[f] = true
	defer delete(eng.writesBusy, f)
	ex := &Exec{eng: eng, fn: f, fc: eng.contractFor(f), collect: true, written: map[string]*Sort{}, freshRefs: map[*Term]bool{}, loopEntry: map[*ssa.BasicBlock]*State{}, cloAt: map[*Term]*closureInfo{}, callSeq: map[string]int{}, boxes: map[*Term]*boxInfo{}, seqOf: map[*Term]*seqInfo{}}
	st, args := ex.newEntryState(f)
	ex.pre = st.clone()
	var binds []*Val
	for _, fv := range f.FreeVars {
		binds = append(binds, symVal("fv_"+fv.Name(), fv.Type()))
	}
	func() {
		defer func() {
			if r := recover(); r != nil {
				if _, ok := r.(unsupported); ok {
					// cannot analyse: treat as writing everything known so far
					ex.written["*"] = SBool
					return
				}
				panic(r)
			}
		}()
		ex.execFunc(st, f, args, binds, 1)
	}()
	eng.writesCache[f] = ex.written
	return ex.written
}

type FuncReport struct {
	Func        string
	Key         string
	Obligations []*Obligation
	Paths       int
	Error       string
	Seconds     float64
	Writes      []string
	Assumed     []string
	Trivial     int
	Panics      int
}

// VerifyFunc symbolically executes one function against its contract and
// returns the generated obligations (not yet solved).
func (eng *Engine) VerifyFunc(f *ssa.Function) (rep *FuncReport) {
	t0 := time.Now()
	fc := eng.contractFor(f)
	rep = &FuncReport{Func: funcShort(f), Key: funcKey(f)}
	ex := &Exec{eng: eng, fn: f, fc: fc, assumed: map[string]bool{}, loopEntry: map[*ssa.BasicBlock]*State{}, cloAt: map[*Term]*closureInfo{}, callSeq: map[string]int{}, boxes: map[*Term]*boxInfo{}, seqOf: map[*Term]*seqInfo{}}
	defer func() {
		rep.Seconds = time.Since(t0).Seconds()
		rep.Obligations = ex.obls
		rep.Paths = ex.npaths + 1
		rep.Trivial = ex.trivialSafety
		for a := range ex.assumed {
			rep.Assumed = append(rep.Assumed, a)
		}
		sort.Strings(rep.Assumed)
		if r := recover(); r != nil {
			if u, ok := r.(unsupported); ok {
				rep.Error = u.msg
				return
			}
			if os.Getenv("GOVC_PANIC") != "" {
				panic(r)
			}
			// an internal failure of the generator on this function: the function is not analysed (reported as an engine error, never as "verified")
			rep.Error = fmt.Sprintf("internal error of the generator: %v", r)
		}
	}()
	st, args := ex.newEntryState(f)
	var binds []*Val
	for _, fv := range f.FreeVars {
		v := symVal("fv_"+fv.Name(), fv.Type())
		binds = append(binds, v)
		ex.assumeWellTyped(st, v, fv.Type())
		if _, isPtr := fv.Type().Underlying().(*types.Pointer); isPtr && v.K == VScalar {
			// captured variables are cells: the pointer to the cell is never nil
			st.assume(Neq(v.T, IntLit(0, v.T.Sort)))
		}
	}
	ex.pre = st // requires are evaluated in the entry state
	ex.pushFrame(st, f, args, binds, 0)
	fr := st.top()
	vars := map[string]*Val{}
	if fc != nil {
		vars = ex.bindParams(fc, args, f)
		for i, fv := range f.FreeVars {
			vars[fv.Name()] = ex.derefBind(st, binds[i], fv.Type())
		}
		for _, c := range fc.Requires {
			g := ex.evalClause(st, fr, c, vars)
			st.assume(g)
		}
	}
	// rely/guarantee: this function is named as a writer by interference clauses elsewhere; the condition each
	// of them assumes after the interference is an obligation here (guaranteeFor)
	guars := ex.guaranteesFor(st, f, vars)
	ex.pre = st.clone()
	ex.inputs = vars
	if fc != nil && len(fc.Requires) > 0 {
		o := ex.oblige(st, "cover", "requires-satisfiable", nil, TFalse, "requires of "+funcShort(f), "")
		o.Cover = true
	}
	if fc != nil && fc.Pure != nil {
		// frame condition, decided on the inferred write set (every store instruction reachable from f,
		// through calls, except stores into objects allocated during the call)
		var ws []string
		for n := range eng.cachedWrites(f) {
			ws = append(ws, n)
		}
		sort.Strings(ws)
		g := TTrue
		src := "writes nothing"
		if len(ws) > 0 {
			g = TFalse
			src = "writes " + strings.Join(ws, ", ")
		}
		ex.oblige(st, "frame", fc.Pure.Label, fc.Pure.Tags, g, src, fmt.Sprintf("%s:%d", filepath.Base(fc.Pure.File), fc.Pure.Line))
	}
	outs := ex.execFrom(st, f.Blocks[0], 0, nil)
	var covers []*Obligation
	for _, o := range outs {
		s := o.st
		if o.kind == OPanic {
			rep.Panics++
			allowed := TFalse
			if fc != nil && fc.Panics != nil {
				env := ex.envFor(ex.pre, nil, vars)
				env.pkg = ex.pkgOfKey(fc, f)
				env.old = ex.pre
				allowed = ex.evalWith(env, fc.Panics)
			}
			ex.oblige(s, "safety.panic", "no-unspecified-panic", nil, allowed, o.msg, eng.pos(sitePos(o.site)))
			continue
		}
		if fc == nil {
			continue
		}
		rvars := map[string]*Val{}
		for k, v := range vars {
			rvars[k] = v
		}
		// captured variables are read in the final state (old(x) gives the entry value)
		for i, fv := range f.FreeVars {
			rvars[fv.Name()] = ex.derefBind(s, binds[i], fv.Type())
		}
		var res *Val
		switch len(o.results) {
		case 0:
		case 1:
			res = o.results[0]
		default:
			res = &Val{K: VTuple, Fs: o.results}
		}
		bindResults(fc, res, rvars)
		for _, g := range guars {
			env := &Env{ex: ex, cur: s, old: ex.pre, vars: g.vars, pkg: ex.pkgOfKey(g.rfc, g.relier)}
			c := g.in.Assume
			label := c.Label
			if label == "" {
				label = fmt.Sprintf("rely-of-%s#%d", funcShort(g.relier), g.idx)
			}
			// one obligation per conjunct, so that a failure names the part of the rely condition that is not guaranteed
			for k, cj := range conjuncts(c.E) {
				cc := &Clause{Kind: c.Kind, Tags: c.Tags, Label: label, E: cj, Src: c.Src, File: c.File, Line: c.Line}
				ex.oblige(s, "guarantee", fmt.Sprintf("%s.%d", label, k+1), c.Tags, ex.evalWith(env, cc), cj.String(), fmt.Sprintf("%s:%d", filepath.Base(c.File), c.Line))
			}
		}
		for _, c := range fc.Ensures {
			// locals of the returning frame are visible (after parameters and results)
			var rfr *Frame
			if len(s.frames) > 0 {
				rfr = s.top()
			}
			env := ex.envFor(s, rfr, rvars)
			env.pkg = ex.pkgOfKey(fc, f)
			g := ex.evalWith(env, c)
			ob := ex.oblige(s, "ensures", c.Label, c.Tags, g, c.Src, fmt.Sprintf("%s:%d", filepath.Base(c.File), c.Line))
			if ob != nil {
				ob.Watch = ex.watchTerms(rvars)
			}
			// cover: the antecedent of an implication must be reachable on some path
			ante := TTrue
			if c.E.Op == "binop" && c.E.Name == "==>" {
				av := ex.evalWith(env, &Clause{E: c.E.Args[0], File: c.File, Line: c.Line, Src: c.Src})
				ante = av
			}
			cs := s.clone()
			cs.assume(ante)
			co := ex.oblige(cs, "cover", c.Label, c.Tags, TFalse, "antecedent of "+c.Label+" reachable", fmt.Sprintf("%s:%d", filepath.Base(c.File), c.Line))
			if co != nil {
				co.Cover = true
				covers = append(covers, co)
			}
		}
	}
	_ = covers
	return rep
}

// guarantee is one rely condition of another function (the relier) that names the function under
// verification as a writer: the relier's parameters are arbitrary, except that the object the relier
// shares with the writer is the writer's.
type guarantee struct {
	relier *ssa.Function
	rfc    *FuncContract
	in     *Interference
	idx    int
	vars   map[string]*Val
}

func (ex *Exec) guaranteesFor(st *State, f *ssa.Function, wvars map[string]*Val) []*guarantee {
	var out []*guarantee
	eng := ex.eng
	wkey := funcKey(f)
	var rkeys []string
	for k := range eng.specs.Funcs {
		rkeys = append(rkeys, k)
	}
	sort.Strings(rkeys)
	for _, rk := range rkeys {
		rfc := eng.specs.Funcs[rk]
		for idx, in := range rfc.Interference {
			hit := false
			for _, w := range in.Writers {
				if callMatches(w, wkey) {
					hit = true
				}
			}
			if !hit || len(eng.funcs[rk]) == 0 {
				continue
			}
			rf := eng.funcs[rk][0]
			g := &guarantee{relier: rf, rfc: rfc, in: in, idx: idx, vars: map[string]*Val{}}
			for i, n := range rfc.Params {
				if i >= len(rf.Params) {
					break
				}
				v := symVal(fmt.Sprintf("rely%d_%s", len(out), n), rf.Params[i].Type())
				ex.assumeWellTyped(st, v, rf.Params[i].Type())
				g.vars[n] = v
			}
			// the shared object
			var link *Val
			if in.Linking != nil {
				env := &Env{ex: ex, cur: st, old: st, vars: g.vars, pkg: ex.pkgOfKey(rfc, rf)}
				link = env.rvalue(env.eval(in.Linking.E))
			} else {
				for i, n := range rfc.Params {
					if i < len(rf.Params) {
						if _, isPtr := rf.Params[i].Type().Underlying().(*types.Pointer); isPtr && ex.sharedWith(wvars, rf.Params[i].Type()) != nil {
							link = g.vars[n]
							break
						}
					}
				}
			}
			if link == nil || link.K != VScalar {
				ex.fail("interference clause %d of %s: no object shared with writer %s (add 'linking EXPR')", idx, short(rk), short(wkey))
			}
			w := ex.sharedWith(wvars, link.Ty)
			if w == nil {
				ex.fail("interference clause %d of %s: writer %s has no parameter of type %s to link", idx, short(rk), short(wkey), link.Ty)
			}
			st.assume(Eq(link.T, w.T))
			out = append(out, g)
		}
	}
	return out
}

// sharedWith finds the writer's parameter (or captured variable) of the given type; the receiver's name sorts first by convention.
func (ex *Exec) sharedWith(wvars map[string]*Val, t types.Type) *Val {
	var names []string
	for n := range wvars {
		names = append(names, n)
	}
	sort.Strings(names)
	var found *Val
	for _, n := range names {
		v := wvars[n]
		if v != nil && v.K == VScalar && v.Ty != nil && types.Identical(v.Ty, t) {
			if found != nil && found.T != v.T {
				return found // ambiguous: first by name
			}
			found = v
		}
	}
	return found
}

func sitePos(in ssa.Instruction) token.Pos {
	if in == nil {
		return token.NoPos
	}
	return in.Pos()
}

// derefBind gives the value of a captured variable (free variables are pointers to cells).
func (ex *Exec) derefBind(st *State, b *Val, t types.Type) *Val {
	if p, ok := t.Underlying().(*types.Pointer); ok && b.K == VScalar {
		return ex.load(st, &Addr{Kind: AObj, Root: p.Elem(), Obj: b.T, Ty: p.Elem()})
	}
	return b
}

func (ex *Exec) watchTerms(vars map[string]*Val) map[string]*Term {
	out := map[string]*Term{}
	for k, v := range vars {
		switch v.K {
		case VScalar:
			if v.T.Sort.Kind != SKArray {
				out[k] = v.T
			}
		case VSlice:
			out[k+".len"] = v.Len
			out[k+".ref"] = v.Ref
		}
	}
	return out
}

// axiomsFor returns the global axioms relevant to a set of terms.
func (eng *Engine) axiomTerms(ex *Exec) []*Term {
	var out []*Term
	for _, c := range eng.specs.Axioms {
		env := &Env{ex: ex, cur: &State{heap: map[string]*Term{}, alloc: Sym("alloc@0", SRef)}, vars: map[string]*Val{}}
		env.old = env.cur
		func() {
			defer func() {
				if r := recover(); r != nil {
					if se, ok := r.(specErr); ok {
						panic(fmt.Sprintf("axiom at %s:%d: %s", c.File, c.Line, se.msg))
					}
					panic(r)
				}
			}()
			v := env.eval(c.E)
			out = append(out, v.T)
		}()
	}
	return out
}

func appNames(t *Term, seen map[*Term]bool, out map[string]bool) {
	if seen[t] {
		return
	}
	seen[t] = true
	if t.Op == "app" {
		out[t.Name] = true
	}
	for _, a := range t.Args {
		appNames(a, seen, out)
	}
}

// relevantAxioms selects axioms sharing an uninterpreted function with the query.
func relevantAxioms(axioms []*Term, q []*Term) []*Term {
	used := map[string]bool{}
	seen := map[*Term]bool{}
	for _, t := range q {
		appNames(t, seen, used)
	}
	picked := make([]bool, len(axioms))
	var out []*Term
	for changed := true; changed; {
		changed = false
		for i, a := range axioms {
			if picked[i] {
				continue
			}
			names := map[string]bool{}
			appNames(a, map[*Term]bool{}, names)
			hit := false
			for n := range names {
				if used[n] {
					hit = true
					break
				}
			}
			if hit {
				picked[i] = true
				out = append(out, a)
				for n := range names {
					if !used[n] {
						used[n] = true
						changed = true
					}
				}
			}
		}
	}
	return out
}

// builtinFacts adds engine-level facts about terms occurring in the query:
// lengths of string literals, distinctness of sentinel errors.
func (eng *Engine) builtinFacts(q []*Term) []*Term {
	var out []*Term
	seen := map[*Term]bool{}
	var lits []*Term
	var errs []*Term
	for _, t := range q {
		walk(t, seen, func(x *Term) {
			if x.Op == "strlit" {
				lits = append(lits, x)
			}
			if x.Op == "sym" && strings.HasPrefix(x.Name, "errvar$") {
				errs = append(errs, x)
			}
			if x.Op == "sym" && strings.HasPrefix(x.Name, "fn$") {
				lits = append(lits, x)
			}
		})
	}
	for _, l := range lits {
		if l.Op == "sym" {
			out = append(out, Lt(l, IntLit(0, l.Sort))) // a named function is a non-nil value outside the allocation range
			continue
		}
		out = append(out, Eq(App("slen", SInt, l), IntLit(int64(len(l.Name)), SInt)))
	}
	sort.Slice(errs, func(i, j int) bool { return errs[i].Name < errs[j].Name })
	for i, e := range errs {
		out = append(out, Neq(e, IntLit(0, SErr)))
		out = append(out, Lt(e, IntLit(0, SErr))) // sentinels live below the allocation range
		for j := i + 1; j < len(errs); j++ {
			out = append(out, Neq(e, errs[j]))
		}
		t := BVar("t", SErr)
		out = append(out, Forall([]*Term{t}, Eq(App("errIs", SBool, e, t), Eq(t, e))))
	}
	return out
}

// SolveAll discharges obligations in parallel. Cover obligations (vacuity
// guards) are grouped by name and solved until one member is satisfiable.
func (eng *Engine) SolveAll(obls []*Obligation, axioms []*Term) {
	var wg sync.WaitGroup
	sem := make(chan struct{}, 14)
	solveOne := func(o *Obligation) {
		hyps := o.Hyps.list()
		q := append(append([]*Term{}, hyps...), o.Goal)
		ax := relevantAxioms(axioms, q)
		all := append(append([]*Term{}, ax...), hyps...)
		all = append(all, eng.builtinFacts(append(q, ax...))...)
		to := eng.timeoutS
		if o.Cover && to > 3 {
			to = 3
		}
		r := Solve(o.Name, all, o.Goal, to, eng.seed, eng.thorough && !o.Cover, o.Cover)
		if r.Status == "sat" && r.QFScript != "" && len(o.Watch) > 0 && !o.Cover {
			r.Values = GetValues(r.QFScript, o.Watch, eng.timeoutS)
		}
		r.QFScript = ""
		if o.Cover {
			r.Model = ""
		}
		o.Result = &r
	}
	groups := map[string][]*Obligation{}
	var order []string
	for _, o := range obls {
		if o.Cover {
			if _, ok := groups[o.Name]; !ok {
				order = append(order, o.Name)
			}
			groups[o.Name] = append(groups[o.Name], o)
			continue
		}
		if o.Goal.Op == "true" {
			o.Result = &SolveResult{Status: "unsat", Solver: "simplifier", Stage: "syntactic"}
			continue
		}
		wg.Add(1)
		go func(o *Obligation) {
			defer wg.Done()
			sem <- struct{}{}
			defer func() { <-sem }()
			solveOne(o)
		}(o)
	}
	for _, name := range order {
		g := groups[name]
		wg.Add(1)
		go func(g []*Obligation) {
			defer wg.Done()
			sem <- struct{}{}
			defer func() { <-sem }()
			covered := false
			for _, o := range g {
				if covered {
					o.Result = &SolveResult{Status: "skipped", Solver: "-", Stage: "cover"}
					continue
				}
				// a syntactically false hypothesis set is vacuous without asking
				solveOne(o)
				if o.Result.Status != "unsat" {
					covered = true
				}
			}
		}(g)
	}
	wg.Wait()
	// Robustness under machine load: an obligation no solver decided within the budget is tried once
	// more, few at a time, with three times the budget, before it is reported as not discharged.
	var again []*Obligation
	for _, o := range obls {
		if !o.Cover && o.Result != nil && o.Result.Status != "unsat" && o.Result.Status != "sat" {
			again = append(again, o)
		}
	}
	if len(again) > 0 && len(again) <= 40 {
		base := eng.timeoutS
		eng.timeoutS = 3 * base
		sem2 := make(chan struct{}, 4)
		for _, o := range again {
			wg.Add(1)
			go func(o *Obligation) {
				defer wg.Done()
				sem2 <- struct{}{}
				defer func() { <-sem2 }()
				first := o.Result
				solveOne(o)
				o.Result.Retried = true
				if o.Result.Status != "unsat" && o.Result.Status != "sat" {
					o.Result.Seconds += first.Seconds
				}
			}(o)
		}
		wg.Wait()
		eng.timeoutS = base
	}
}

// Verdict classifies an obligation after solving.
// ok: discharged (or, for covers, satisfiable). Cover groups are judged by coverVerdicts.
func coverVerdicts(obls []*Obligation) map[string]bool {
	res := map[string]bool{}
	for _, o := range obls {
		if !o.Cover {
			continue
		}
		if _, ok := res[o.Name]; !ok {
			res[o.Name] = false
		}
		if o.Result != nil && (o.Result.Status == "sat" || o.Result.Status == "unknown") {
			res[o.Name] = true
		}
	}
	return res
}

func conjuncts(e *Expr) []*Expr {
	if e.Op == "binop" && e.Name == "&&" {
		return append(conjuncts(e.Args[0]), conjuncts(e.Args[1])...)
	}
	return []*Expr{e}
}
