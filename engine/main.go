package main

import (
	"flag"
	"fmt"
	"os"
	"sort"
	"strings"
)

func main() {
	if len(os.Args) < 2 {
		fmt.Fprintln(os.Stderr, "usage: govc <dev|check> ...")
		os.Exit(2)
	}
	switch os.Args[1] {
	case "dev":
		devMain(os.Args[2:])
	case "check":
		checkMain(os.Args[2:])
	default:
		fmt.Fprintln(os.Stderr, "unknown command", os.Args[1])
		os.Exit(2)
	}
}

// devMain verifies every function with a contract in the given packages and prints the result.
func devMain(args []string) {
	fs := flag.NewFlagSet("dev", flag.ExitOnError)
	repo := fs.String("repo", "/repo", "repository root")
	pkgs := fs.String("pkgs", "./...", "comma separated package patterns")
	stubs := fs.String("stubs", "/verif/stubs", "stub directory")
	only := fs.String("func", "", "only functions whose name contains this")
	timeout := fs.Int("timeout", 10, "solver timeout (s)")
	verbose := fs.Bool("v", false, "verbose")
	nosolve := fs.Bool("nosolve", false, "generate obligations only")
	showWrites := fs.String("writes", "", "print the inferred write set of functions whose name contains this")
	fs.Parse(args)
	_ = pkgs
	eng, err := Load(*repo, []string{"./..."})
	if err != nil {
		fmt.Fprintln(os.Stderr, "load:", err)
		os.Exit(2)
	}
	if err := eng.LoadStubs(*stubs); err != nil {
		fmt.Fprintln(os.Stderr, "stubs:", err)
		os.Exit(2)
	}
	eng.indexFuncs()
	eng.timeoutS = *timeout
	defer cleanupSMT()
	fmt.Printf("loaded in %.1fs; %d contracts\n", eng.loadSeconds, len(eng.specs.Funcs))
	if *showWrites == "LIST" {
		for k, fns := range eng.funcs {
			for _, f := range fns {
				nb := 0
				for _, b := range f.Blocks {
					nb += len(b.Instrs)
				}
				fmt.Printf("%s | %s | synthetic=%q instrs=%d typeparams=%d\n", short(k), short(f.String()), f.Synthetic, nb, f.TypeParams().Len())
			}
		}
		return
	}
	if *showWrites != "" {
		for k, fns := range eng.funcs {
			if strings.Contains(k, *showWrites) {
				for _, f := range fns {
					ws := eng.cachedWrites(f)
					var ns []string
					for n := range ws {
						ns = append(ns, n)
					}
					sort.Strings(ns)
					fmt.Printf("writes of %s:\n  %s\n", short(f.String()), strings.Join(ns, "\n  "))
				}
			}
		}
		return
	}
	dummy := &Exec{eng: eng}
	axioms := eng.axiomTerms(dummy)
	var keys []string
	for k := range eng.specs.Funcs {
		keys = append(keys, k)
	}
	sort.Strings(keys)
	failed := 0
	for _, k := range keys {
		if *only != "" && !strings.Contains(k, *only) {
			continue
		}
		if *pkgs != "./..." {
			hit := false
			for _, p := range strings.Split(*pkgs, ",") {
				if strings.Contains(k, modPath+strings.TrimPrefix(p, ".")+".") {
					hit = true
				}
			}
			if !hit {
				continue
			}
		}
		fc := eng.specs.Funcs[k]
		if fc.Trusted || fc.Inline {
			continue
		}
		fns := eng.funcs[k]
		if len(fns) == 0 {
			if strings.HasPrefix(k, modPath) {
				fmt.Printf("!! contract for %s: no such function\n", short(k))
				failed++
			}
			continue
		}
		for _, f := range fns {
			if f.TypeParams().Len() > 0 && len(f.TypeArgs()) == 0 && len(fns) > 1 {
				continue // generic body: its instances are verified instead
			}
			rep := eng.VerifyFunc(f)
			if rep.Error != "" {
				fmt.Printf("!! %s: %s\n", rep.Func, rep.Error)
				failed++
				continue
			}
			if *nosolve {
				fmt.Printf("%s: %d paths, %d obligations generated in %.2fs\n", rep.Func, rep.Paths, len(rep.Obligations), rep.Seconds)
				continue
			}
			eng.SolveAll(rep.Obligations, axioms)
			ok, bad := 0, 0
			cv := coverVerdicts(rep.Obligations)
			ncover := 0
			for _, o := range rep.Obligations {
				if o.Cover {
					continue
				}
				if o.Result.Status == "unsat" {
					ok++
				} else {
					bad++
				}
			}
			var vac []string
			for n, good := range cv {
				ncover++
				if !good {
					vac = append(vac, n)
				}
			}
			sort.Strings(vac)
			for _, n := range vac {
				fmt.Printf("   VACUOUS %s\n", n)
				failed++
			}
			fmt.Printf("%s: %d paths, %d obligations (+%d trivial safety), %d discharged, %d failed, %d covers (%d vacuous)  [%.2fs]\n", rep.Func, rep.Paths, ok+bad, rep.Trivial, ok, bad, ncover, len(vac), rep.Seconds)
			for _, o := range rep.Obligations {
				if o.Cover {
					continue
				}
				if o.Result.Status != "unsat" || *verbose {
					fmt.Printf("   %-6s %-50s path=%s %s %.2fs %s\n", o.Result.Status, o.Name, o.Path, o.Result.Solver, o.Result.Seconds, o.Where)
					if o.Result.Status != "unsat" {
						failed++
						var ks []string
						for k := range o.Result.Values {
							ks = append(ks, k)
						}
						sort.Strings(ks)
						for _, k := range ks {
							fmt.Printf("        %s = %s\n", k, o.Result.Values[k])
						}
					}
				}
			}
			if *verbose {
				for _, a := range rep.Assumed {
					fmt.Println("   assume:", a)
				}
			}
		}
	}
	fmt.Printf("instantiate+print %.1fs, solver %.1fs (cumulative over workers)\n", statInst, statSolve)
	if failed > 0 {
		os.Exit(1)
	}
}
