package main

// Symbolic execution of go/ssa function bodies, path by path; loops are cut at
// invariants, calls are replaced by contracts (or inlined when no contract).

import (
	"fmt"
	"go/ast"
	"go/constant"
	"go/token"
	"go/types"
	"os"
	"sort"
	"strings"

	"golang.org/x/tools/go/ssa"
)

type Obligation struct {
	Name   string // "<pkg>.<func> <kind> <label>"
	Func   string
	Kind   string
	Label  string
	Tags   []string
	Path   string
	Dep    bool // belongs to a dependency (callee closure) of the property, not to a function tagged with it
	Hyps   *pcNode
	Goal   *Term
	Src    string
	Where  string
	Watch  map[string]*Term // terms whose model values are reported on failure
	Cover  bool             // vacuity guard: must NOT be unsat
	Result *SolveResult
}

type OutcomeKind int

const (
	ORet OutcomeKind = iota
	OPanic
)

type Outcome struct {
	st      *State
	kind    OutcomeKind
	results []*Val
	site    ssa.Instruction
	msg     string
}

type Exec struct {
	eng      *Engine
	fn       *ssa.Function
	fc       *FuncContract
	collect  bool
	written  map[string]*Sort
	obls     []*Obligation
	pre      *State
	errs     []string
	npaths   int
	inputs   map[string]*Val
	assumed  map[string]bool // assumption ids used
	loopDone map[string]bool
	callSeq  map[string]int

	stopAtLoopExit []*ssa.BasicBlock
	loopEntry      map[*ssa.BasicBlock]*State
	orphans        []*LoopSpec
	orphanAssigned map[*ssa.BasicBlock]*LoopSpec
	cloAt          map[*Term]*closureInfo
	trivialSafety  int
	boxes          map[*Term]*boxInfo
	seqOf          map[*Term]*seqInfo
	freshRefs      map[*Term]bool
	skipHeadOnce   *ssa.BasicBlock
	writtenOuter   map[string]*Sort // writes to objects not fresh w.r.t. the enclosing function
	parentFresh    map[*Term]bool
	iterStart      map[*ssa.BasicBlock]*State
	evalLoop       *ssa.BasicBlock // loop whose clauses are being evaluated
	stopBlocks     []*ssa.BasicBlock
	reached        [][]reach
	noMerge        bool
	skipStop       bool
}

type unsupported struct{ msg string }

func (ex *Exec) fail(f string, a ...any) { panic(unsupported{fmt.Sprintf(f, a...)}) }

func (ex *Exec) note(id string) {
	if ex.assumed != nil {
		ex.assumed[id] = true
	}
}

var debugLoops = os.Getenv("GOVC_DEBUG_LOOPS") != ""

const maxPaths = 6000
const maxInlineDepth = 5

func funcShort(fn *ssa.Function) string { return short(fn.String()) }

// oblige records a proof obligation (unless collecting).
func (ex *Exec) oblige(st *State, kind, label string, tags []string, goal *Term, src string, where string) *Obligation {
	if ex.collect {
		return nil
	}
	if goal.Op == "true" {
		// trivially discharged by simplification; still counted
	}
	name := funcShort(ex.fn) + " " + kind
	if label != "" {
		name += " " + label
	}
	o := &Obligation{Name: name, Func: funcShort(ex.fn), Kind: kind, Label: label, Tags: tags, Path: st.path, Hyps: st.pc, Goal: goal, Src: src, Where: where}
	ex.obls = append(ex.obls, o)
	return o
}

func (ex *Exec) val(st *State, v ssa.Value) *Val {
	fr := st.top()
	switch c := v.(type) {
	case *ssa.Const:
		return ex.constVal(c)
	case *ssa.Global:
		return &Val{K: VAddr, A: &Addr{Kind: AGlobal, Glob: c.Pkg.Pkg.Path() + "." + c.Name(), Root: deref(c.Type()), Ty: deref(c.Type())}, Ty: c.Type()}
	case *ssa.Function:
		r := Sym("fn$"+short(c.String()), SRef)
		return &Val{K: VScalar, T: r, Ty: c.Type(), Clo: &closureInfo{fn: c}}
	case *ssa.Builtin:
		return &Val{K: VScalar, T: Sym("builtin$"+c.Name(), SRef), Ty: c.Type()}
	case *ssa.FreeVar:
		for i, fv := range fr.fn.FreeVars {
			if fv == c {
				if i < len(fr.binds) {
					return fr.binds[i]
				}
			}
		}
		ex.fail("free variable %s unbound in %s", c.Name(), fr.fn)
	}
	if r, ok := fr.vals[v]; ok {
		return r
	}
	ex.fail("no value for %s = %s in %s", v.Name(), v, fr.fn)
	return nil
}

func deref(t types.Type) types.Type {
	if p, ok := t.Underlying().(*types.Pointer); ok {
		return p.Elem()
	}
	return t
}

func (ex *Exec) constVal(c *ssa.Const) *Val {
	t := c.Type()
	if c.Value == nil {
		return zeroVal(t)
	}
	sh := shapeOf(t)
	if sh.K != ShScalar {
		return zeroVal(t)
	}
	switch c.Value.Kind() {
	case constant.Bool:
		return scalar(Bool(constant.BoolVal(c.Value)), t)
	case constant.String:
		return scalar(StrLit(constant.StringVal(c.Value)), t)
	case constant.Int:
		bi, _ := new(bigInt).SetString(c.Value.ExactString(), 10)
		if sh.Sort.Kind == SKBV {
			return scalar(BVLit(bi, sh.Sort.Bits), t)
		}
		if sh.Sort == SF64 {
			return scalar(App("f64lit$"+c.Value.ExactString(), SF64), t)
		}
		return scalar(IntLitBig(bi, sh.Sort), t)
	case constant.Float:
		return scalar(App("f64lit$"+sanitizeTag(c.Value.ExactString()), SF64), t)
	}
	ex.fail("constant %s", c)
	return nil
}

// ---------------------------------------------------------------- function entry

// newEntryState builds the symbolic entry state of fn with deterministic
// input symbol names.
func (ex *Exec) newEntryState(fn *ssa.Function) (*State, []*Val) {
	st := &State{heap: map[string]*Term{}, alloc: Sym("alloc@0", SRef)}
	st.assume(Gt(st.alloc, IntLit(0, SRef)))
	var args []*Val
	for _, p := range fn.Params {
		v := symVal("in_"+p.Name(), p.Type())
		args = append(args, v)
		ex.assumeWellTyped(st, v, p.Type())
	}
	return st, args
}

// assumeWellTyped adds the type invariants of an input value: references are
// below the allocation frontier, lengths are non-negative.
func (ex *Exec) assumeWellTyped(st *State, v *Val, t types.Type) {
	switch v.K {
	case VScalar:
		if v.T.Sort == SErr {
			// errors may be sentinel variables, which live below the allocation range
			st.assume(Lt(v.T, coerce(st.alloc, v.T.Sort)))
		} else if v.T.Sort.Kind == SKInt && v.T.Sort != SInt && v.T.Sort != STime {
			st.assume(And(Ge(v.T, IntLit(0, v.T.Sort)), Lt(v.T, coerce(st.alloc, v.T.Sort))))
		}
	case VSlice:
		st.assume(And(Ge(v.Ref, IntLit(0, SRef)), Lt(v.Ref, st.alloc), Ge(v.Len, IntLit(0, SInt))))
		st.assume(Implies(Eq(v.Ref, IntLit(0, SRef)), Eq(v.Len, IntLit(0, SInt))))
		if isByte(v.Elem) {
			st.assume(Eq(slen(ex.bytesOf(st, v.Ref)), v.Len))
		}
	case VStruct, VTuple:
		for _, f := range v.Fs {
			ex.assumeWellTyped(st, f, f.Ty)
		}
	}
}

func (ex *Exec) pushFrame(st *State, fn *ssa.Function, args []*Val, binds []*Val, depth int) *Frame {
	fr := &Frame{fn: fn, vals: map[ssa.Value]*Val{}, names: map[string]namedVal{}, binds: binds, depth: depth}
	if len(args) != len(fn.Params) {
		ex.fail("call of %s with %d args, want %d", fn, len(args), len(fn.Params))
	}
	for i, p := range fn.Params {
		fr.vals[p] = args[i]
		fr.names[p.Name()] = namedVal{v: args[i]}
	}
	for i, fv := range fn.FreeVars {
		if i < len(binds) {
			_, isPtr := fv.Type().Underlying().(*types.Pointer)
			fr.names[fv.Name()] = namedVal{v: binds[i], isAddr: isPtr}
		}
	}
	st.frames = append(st.frames, fr)
	return fr
}

// execFunc runs fn's body from state st and returns the outcomes, each with the
// callee frame popped.
func (ex *Exec) execFunc(st *State, fn *ssa.Function, args []*Val, binds []*Val, depth int) []Outcome {
	if len(fn.Blocks) == 0 {
		ex.fail("function %s has no body", fn)
	}
	ex.pushFrame(st, fn, args, binds, depth)
	outs := ex.execFrom(st, fn.Blocks[0], 0, nil)
	for i := range outs {
		s := outs[i].st
		s.frames = s.frames[:len(s.frames)-1]
	}
	return outs
}

// ---------------------------------------------------------------- loops

type loopInfo struct {
	heads map[*ssa.BasicBlock]int // loop head -> ordinal in source order
	body  map[*ssa.BasicBlock]map[*ssa.BasicBlock]bool
}

func (eng *Engine) loops(fn *ssa.Function) *loopInfo {
	if li, ok := eng.loopCache[fn]; ok {
		return li
	}
	li := &loopInfo{heads: map[*ssa.BasicBlock]int{}, body: map[*ssa.BasicBlock]map[*ssa.BasicBlock]bool{}}
	var heads []*ssa.BasicBlock
	for _, b := range fn.Blocks {
		for _, p := range b.Preds {
			if b.Dominates(p) {
				if _, ok := li.body[b]; !ok {
					li.body[b] = map[*ssa.BasicBlock]bool{b: true}
					heads = append(heads, b)
				}
				// natural loop of back edge p -> b
				stack := []*ssa.BasicBlock{p}
				for len(stack) > 0 {
					n := stack[len(stack)-1]
					stack = stack[:len(stack)-1]
					if li.body[b][n] {
						continue
					}
					li.body[b][n] = true
					stack = append(stack, n.Preds...)
				}
			}
		}
	}
	// ordinal by source position of the first positioned instruction, falling back to block index
	sort.SliceStable(heads, func(i, j int) bool {
		pi, pj := blockPos(heads[i]), blockPos(heads[j])
		if pi != pj {
			return pi < pj
		}
		return heads[i].Index < heads[j].Index
	})
	for i, h := range heads {
		li.heads[h] = i
	}
	eng.loopCache[fn] = li
	return li
}

func blockPos(b *ssa.BasicBlock) token.Pos {
	best := token.Pos(1 << 30)
	for _, in := range b.Instrs {
		if p := in.Pos(); p.IsValid() && p < best {
			best = p
		}
	}
	// loop heads often have no positions; use the smallest position in the loop's successor body
	if best == token.Pos(1<<30) {
		for _, s := range b.Succs {
			for _, in := range s.Instrs {
				if p := in.Pos(); p.IsValid() && p < best {
					best = p
				}
			}
		}
	}
	return best
}

func isBackEdge(pred, b *ssa.BasicBlock) bool { return pred != nil && b.Dominates(pred) }

// loopWrites discovers which heap arrays the loop with head h can write, by
// executing its body once in collect mode from (a clone of) the current state.
func (ex *Exec) loopWrites(st *State, h *ssa.BasicBlock) (map[string]*Sort, map[string]*Sort) {
	sub := &Exec{eng: ex.eng, fn: ex.fn, fc: ex.fc, collect: true, written: map[string]*Sort{}, pre: ex.pre, inputs: ex.inputs, loopEntry: map[*ssa.BasicBlock]*State{}, cloAt: ex.cloAt, callSeq: map[string]int{}, boxes: ex.boxes, seqOf: ex.seqOf, freshRefs: map[*Term]bool{}, writtenOuter: map[string]*Sort{}, parentFresh: map[*Term]bool{}}
	for r := range ex.freshRefs {
		sub.parentFresh[r] = true
	}
	for r := range ex.parentFresh {
		sub.parentFresh[r] = true
	}
	s := st.clone()
	fr := s.top()
	for _, in := range h.Instrs {
		if phi, ok := in.(*ssa.Phi); ok {
			fr.vals[phi] = freshVal("phi_"+phi.Name(), phi.Type())
		}
	}
	sub.havocRanges(s, h)
	func() {
		defer func() {
			if r := recover(); r != nil {
				if u, ok := r.(unsupported); ok {
					ex.fail("in loop body: %s", u.msg)
				}
				panic(r)
			}
		}()
		sub.execLoopBody(s, h)
	}()
	return sub.written, sub.writtenOuter
}

// execLoopBody runs from the head's first non-phi instruction and stops at
// the back edge or when leaving the loop.
func (ex *Exec) execLoopBody(st *State, h *ssa.BasicBlock) {
	i := 0
	for i < len(h.Instrs) {
		if _, ok := h.Instrs[i].(*ssa.Phi); !ok {
			break
		}
		i++
	}
	fr := st.top()
	fr.names["$collecthead"] = namedVal{v: scalar(IntLit(int64(h.Index), SInt), nil)}
	ex.stopAtLoopExit = append(ex.stopAtLoopExit, h)
	if i == 0 {
		ex.skipHeadOnce = h
	}
	ex.execFrom(st, h, i, h) // pred=h marks "already inside"
	ex.stopAtLoopExit = ex.stopAtLoopExit[:len(ex.stopAtLoopExit)-1]
}

func (ex *Exec) havocRanges(st *State, h *ssa.BasicBlock) {
	// Range iterators whose Next lies in this loop get a fresh visited set.
	fr := st.top()
	body := ex.eng.loops(fr.fn).body[h]
	for b := range body {
		for _, in := range b.Instrs {
			if nx, ok := in.(*ssa.Next); ok {
				if rv, ok := fr.vals[nx.Iter]; ok && rv.K == VRange {
					nr := *rv.Rng
					nr.visited = Fresh("visited", nr.visited.Sort)
					fr.vals[nx.Iter] = &Val{K: VRange, Rng: &nr}
				}
			}
		}
	}
}

// Orphaned loop contracts. When part of a function under contract is moved into a helper (a split, or a
// closure turned into a function), the loop travels with it and the helper has no contract, so it is
// inlined where it is called. The loop contracts left behind -- ordinals the function under contract no
// longer has, and the loop contracts of its closures that no longer exist -- are then tried, in order, on
// the loops of such inlined helpers. The invariants are checked as always: a wrong match cannot prove
// anything, it can only fail.
func (ex *Exec) orphanSpecFor(h *ssa.BasicBlock) *LoopSpec {
	if ex.orphanAssigned == nil {
		ex.orphanAssigned = map[*ssa.BasicBlock]*LoopSpec{}
		ex.orphans = ex.eng.orphanLoopSpecs(ex.fn)
	}
	if s, ok := ex.orphanAssigned[h]; ok {
		return s
	}
	var s *LoopSpec
	if len(ex.orphans) > 0 {
		s = ex.orphans[0]
		ex.orphans = ex.orphans[1:]
		ex.note("A-moved-loop: a loop contract written for " + funcShort(ex.fn) + " is applied to a loop that now lives in the inlined helper " + funcShort(h.Parent()))
	}
	ex.orphanAssigned[h] = s
	return s
}

func (eng *Engine) orphanLoopSpecs(f *ssa.Function) []*LoopSpec {
	var out []*LoopSpec
	add := func(fc *FuncContract, have int) {
		if fc == nil {
			return
		}
		var ords []int
		for o := range fc.Loops {
			if o >= have {
				ords = append(ords, o)
			}
		}
		sort.Ints(ords)
		for _, o := range ords {
			out = append(out, fc.Loops[o])
		}
	}
	add(eng.contractFor(f), len(eng.loops(f).heads))
	key := funcKey(f)
	for k := 1; k <= 8; k++ {
		ck := fmt.Sprintf("%s$%d", key, k)
		if fc := eng.specs.Funcs[ck]; fc != nil && len(eng.funcs[ck]) == 0 {
			add(fc, 0)
		}
	}
	return out
}

// enterLoop handles arrival at loop head h from pred.
// It returns false if the path ends here (back edge).
func (ex *Exec) enterLoop(st *State, h *ssa.BasicBlock, pred *ssa.BasicBlock) bool {
	fr := st.top()
	li := ex.eng.loops(fr.fn)
	ord := li.heads[h]
	var spec *LoopSpec
	if fc := ex.eng.contractFor(fr.fn); fc != nil && fc.Loops != nil {
		spec = fc.Loops[ord]
	}
	if spec == nil && fr.fn != ex.fn && ex.eng.contractFor(fr.fn) == nil {
		spec = ex.orphanSpecFor(h)
	}
	// evaluate phis for this edge
	phiVals := map[*ssa.Phi]*Val{}
	for _, in := range h.Instrs {
		phi, ok := in.(*ssa.Phi)
		if !ok {
			break
		}
		for i, p := range h.Preds {
			if p == pred {
				phiVals[phi] = ex.val(st, phi.Edges[i])
			}
		}
	}
	// a counted loop written by hand (i := 0; ...; i++) has the same iteration counter a range loop has
	var counted *ssa.Phi
	hasRange := false
	for _, in := range h.Instrs {
		phi, ok := in.(*ssa.Phi)
		if !ok {
			break
		}
		if phi.Comment == "rangeindex" {
			hasRange = true
		}
		if isCountedPhi(phi, h) {
			if counted != nil {
				counted = nil
				hasRange = true // ambiguous: no iter
				break
			}
			counted = phi
		}
	}
	if hasRange {
		counted = nil
	}
	setPhis := func(m map[*ssa.Phi]*Val) {
		if counted != nil {
			if v, ok := m[counted]; ok {
				fr.names["iter"] = namedVal{v: scalar(v.T, types.Typ[types.Int])}
			}
		}
		for phi, v := range m {
			fr.vals[phi] = v
			if phi.Comment != "" {
				if phi.Comment == "rangeindex" {
					fr.names["iter"] = namedVal{v: scalar(Add(v.T, IntLit(1, SInt)), types.Typ[types.Int])}
				} else {
					fr.names[phi.Comment] = namedVal{v: v}
				}
			}
		}
	}
	where := fmt.Sprintf("loop %d of %s", ord, funcShort(fr.fn))
	ex.evalLoop = h
	defer func() { ex.evalLoop = nil }()
	if isBackEdge(pred, h) {
		if ex.collect {
			return false
		}
		setPhis(phiVals)
		if spec != nil {
			for _, c := range spec.Invariants {
				g := ex.evalClause(st, fr, c, nil)
				ex.oblige(st, "invariant.step", fmt.Sprintf("loop%d %s", ord, c.Label), c.Tags, g, c.Src, where)
			}
			for _, c := range spec.Progress {
				g := ex.evalClause(st, fr, c, nil)
				ex.oblige(st, "progress", fmt.Sprintf("loop%d %s", ord, c.Label), c.Tags, g, c.Src, where)
			}
		}
		return false
	}
	// entry edge
	setPhis(phiVals)
	if spec != nil && !ex.collect {
		for _, c := range spec.Invariants {
			g := ex.evalClause(st, fr, c, nil)
			ex.oblige(st, "invariant.entry", fmt.Sprintf("loop%d %s", ord, c.Label), c.Tags, g, c.Src, where)
		}
	}
	entry := st.clone()
	fr.names["$entry"] = namedVal{v: &Val{K: VScalar, T: TTrue}}
	ex.loopEntry[h] = entry
	// havoc what the loop may change
	writes, outer := ex.loopWrites(st, h)
	names := make([]string, 0, len(writes))
	for n := range writes {
		names = append(names, n)
	}
	sort.Strings(names)
	if debugLoops {
		fmt.Fprintf(os.Stderr, "loop %d of %s writes: %v\n", ord, funcShort(fr.fn), names)
	}
	for _, n := range names {
		if _, isOuter := outer[n]; isOuter {
			ex.havocArr(st, n)
		} else if srt, ok := arrSorts[n]; ok {
			// only objects allocated by this function are written: not part of its visible write set
			st.heap[n] = Fresh(n, srt)
		}
	}
	hv := map[*ssa.Phi]*Val{}
	for phi := range phiVals {
		v := freshVal("loop_"+phi.Name()+"_"+phi.Comment, phi.Type())
		hv[phi] = v
		ex.assumeWellTyped(st, v, phi.Type())
	}
	setPhis(hv)
	ex.havocRanges(st, h)
	na := Fresh("alloc", SRef)
	st.assume(Ge(na, st.alloc))
	st.alloc = na
	if spec != nil {
		for _, c := range spec.Invariants {
			st.assume(ex.evalClause(st, fr, c, nil))
		}
	}
	for n := range fr.names {
		if strings.HasPrefix(n, "first_") {
			delete(fr.names, n)
		}
	}
	if ex.iterStart == nil {
		ex.iterStart = map[*ssa.BasicBlock]*State{}
	}
	ex.iterStart[h] = st.clone()
	// implicit facts for range-index loops: -1 <= phi
	for phi, v := range hv {
		if phi.Comment == "rangeindex" {
			st.assume(Ge(v.T, IntLit(-1, SInt)))
		}
		if isCountedPhi(phi, h) {
			// starts at 0 and only ever grows by one (mathematical integers: A-int)
			st.assume(Ge(v.T, IntLit(0, SInt)))
			// `for i := range n` is lowered to a do-while: the head is entered only under `0 < n` or `i+1 < n`
			if lim := rangeIntLimit(phi, h); lim != nil {
				if lv, ok := ex.tryVal(st, lim); ok && lv.K == VScalar {
					st.assume(Lt(v.T, toInt(lv.T, lim.Type())))
				}
			}
		}
	}
	return true
}

// guardedAccess emits the lock-set obligation of a `guarded` declaration for an access to a guarded field.
func (ex *Exec) guardedAccess(st *State, stT types.Type, field string, in ssa.Instruction) {
	if ex.collect || len(ex.eng.guards()) == 0 {
		return
	}
	named, ok := types.Unalias(stT).(*types.Named)
	if !ok || named.Obj().Pkg() == nil {
		return
	}
	for _, g := range ex.eng.guards() {
		if g.typ != named.Obj().Name() || g.pkg != named.Obj().Pkg().Path() || !g.fields[field] {
			continue
		}
		if g.except[ex.fn.Name()] || g.except[st.top().fn.Name()] {
			continue
		}
		owner := ex.ownerInScope(st, g)
		if owner == nil {
			continue // no owner value in scope: the caller's obligation
		}
		e, err := parseExpr("guardOwner__." + g.lock)
		if err != nil {
			ex.fail("guarded: %v", err)
		}
		fr := st.top()
		env := ex.envFor(st, fr, map[string]*Val{"guardOwner__": owner})
		held := env.eval(e)
		ex.oblige(st, "guarded", g.label+" "+g.typ+"."+field, g.tags, held.T, "guarded "+g.src, ex.eng.pos(in.Pos()))
	}
}

// ownerInScope finds a value of type *Owner among the parameters and captured variables of the frames on the stack.
func (ex *Exec) ownerInScope(st *State, g *guardDecl) *Val {
	isOwner := func(t types.Type) bool {
		p, ok := t.Underlying().(*types.Pointer)
		if !ok {
			return false
		}
		n, ok := types.Unalias(p.Elem()).(*types.Named)
		return ok && n.Obj().Name() == g.owner && n.Obj().Pkg() != nil && n.Obj().Pkg().Path() == g.pkg
	}
	for i := len(st.frames) - 1; i >= 0; i-- {
		fr := st.frames[i]
		for _, p := range fr.fn.Params {
			if isOwner(p.Type()) {
				if v, ok := fr.vals[p]; ok {
					return v
				}
			}
		}
		for j, fv := range fr.fn.FreeVars {
			if j >= len(fr.binds) {
				break
			}
			if isOwner(fv.Type()) {
				return fr.binds[j]
			}
			if p, ok := fv.Type().Underlying().(*types.Pointer); ok && isOwner(p.Elem()) {
				return ex.derefBind(st, fr.binds[j], fv.Type())
			}
		}
	}
	return nil
}

// rangeIntLimit returns n when every edge into the loop head h is the true branch of `x < n` with x the
// value the phi takes on that edge (the shape go/ssa gives `for i := range n`), and n is defined outside the loop.
func rangeIntLimit(phi *ssa.Phi, h *ssa.BasicBlock) ssa.Value {
	var lim ssa.Value
	for i, p := range h.Preds {
		if len(p.Instrs) == 0 {
			return nil
		}
		iff, ok := p.Instrs[len(p.Instrs)-1].(*ssa.If)
		if !ok || len(p.Succs) != 2 || p.Succs[0] != h {
			return nil
		}
		cmp, ok := iff.Cond.(*ssa.BinOp)
		if !ok || cmp.Op != token.LSS {
			return nil
		}
		e := phi.Edges[i]
		if c, isConst := e.(*ssa.Const); isConst {
			xc, ok := cmp.X.(*ssa.Const)
			if !ok || xc.Value == nil || c.Value == nil || xc.Int64() != c.Int64() {
				return nil
			}
		} else if cmp.X != e {
			return nil
		}
		if lim == nil {
			lim = cmp.Y
		} else if lim != cmp.Y {
			return nil
		}
	}
	if lim == nil {
		return nil
	}
	if in, ok := lim.(ssa.Instruction); ok && in.Block() != nil {
		// must be computed before the loop: its block dominates the head and is not the head or a latch
		if in.Block() == h || !in.Block().Dominates(h) {
			return nil
		}
	}
	return lim
}

// isCountedPhi: an int phi at a loop head that enters as the constant 0 and is incremented by 1 on every back edge.
func isCountedPhi(phi *ssa.Phi, h *ssa.BasicBlock) bool {
	b, ok := phi.Type().Underlying().(*types.Basic)
	if !ok || b.Kind() != types.Int {
		return false
	}
	for i, p := range h.Preds {
		e := phi.Edges[i]
		if isBackEdge(p, h) {
			bo, ok := e.(*ssa.BinOp)
			if !ok || bo.Op != token.ADD || bo.X != ssa.Value(phi) {
				return false
			}
			c, ok := bo.Y.(*ssa.Const)
			if !ok || c.Value == nil || c.Int64() != 1 {
				return false
			}
		} else {
			c, ok := e.(*ssa.Const)
			if !ok || c.Value == nil || c.Int64() != 0 {
				return false
			}
		}
	}
	return true
}

// ---------------------------------------------------------------- main interpreter

func (ex *Exec) execFrom(st *State, b *ssa.BasicBlock, idx int, pred *ssa.BasicBlock) []Outcome {
	fr := st.top()
	if idx == 0 && len(ex.stopBlocks) > 0 && ex.stopBlocks[len(ex.stopBlocks)-1] == b && b.Parent() == fr.fn && !isBackEdge(pred, b) && ex.skipHeadOnce != b {
		k := len(ex.reached) - 1
		ex.reached[k] = append(ex.reached[k], reach{st: st, pred: pred})
		return nil
	}
	if idx == 0 && ex.skipHeadOnce == b {
		ex.skipHeadOnce = nil
	} else if idx == 0 {
		li := ex.eng.loops(fr.fn)
		if _, isHead := li.heads[b]; isHead {
			// leaving/re-entering logic for collect-mode body runs
			if n := len(ex.stopAtLoopExit); n > 0 && ex.stopAtLoopExit[n-1] == b {
				return nil // reached the head again in collect mode
			}
			if !ex.enterLoop(st, b, pred) {
				return nil
			}
			// skip phis
			for idx < len(b.Instrs) {
				if _, ok := b.Instrs[idx].(*ssa.Phi); !ok {
					break
				}
				idx++
			}
		} else {
			if n := len(ex.stopAtLoopExit); n > 0 {
				h := ex.stopAtLoopExit[n-1]
				if h.Parent() == fr.fn && !li.body[h][b] {
					return nil // left the loop in collect mode
				}
			}
			// ordinary join: evaluate phis for the incoming edge (in parallel)
			var phis []*ssa.Phi
			var pvals []*Val
			for idx < len(b.Instrs) {
				phi, ok := b.Instrs[idx].(*ssa.Phi)
				if !ok {
					break
				}
				for i, p := range b.Preds {
					if p == pred {
						phis = append(phis, phi)
						pvals = append(pvals, ex.val(st, phi.Edges[i]))
					}
				}
				idx++
			}
			for i, phi := range phis {
				fr.vals[phi] = pvals[i]
				if phi.Comment != "" {
					fr.names[phi.Comment] = namedVal{v: pvals[i]}
				}
			}
		}
	}
	for i := idx; i < len(b.Instrs); i++ {
		in := b.Instrs[i]
		switch x := in.(type) {
		case *ssa.If:
			c := ex.val(st, x.Cond).T
			if !ex.collect {
				if c.Op == "true" {
					return ex.execFrom(st, b.Succs[0], 0, b)
				}
				if c.Op == "false" {
					return ex.execFrom(st, b.Succs[1], 0, b)
				}
			}
			s2 := st.clone()
			base := st.pc
			st.assume(c)
			st.path += "T"
			s2.assume(Not(c))
			s2.path += "F"
			ex.npaths++
			if ex.npaths > maxPaths {
				ex.fail("path limit exceeded")
			}
			J := ex.eng.ipdoms(fr.fn)[b]
			if J == nil || ex.collect || ex.noMerge || len(st.frames) == 0 {
				o1 := ex.execFrom(st, b.Succs[0], 0, b)
				o2 := ex.execFrom(s2, b.Succs[1], 0, b)
				return append(o1, o2...)
			}
			// run both branches up to the join block, merge what arrives there, continue once
			depth := len(st.frames)
			ex.stopBlocks = append(ex.stopBlocks, J)
			ex.reached = append(ex.reached, nil)
			o1 := ex.execFrom(st, b.Succs[0], 0, b)
			o2 := ex.execFrom(s2, b.Succs[1], 0, b)
			rs := ex.reached[len(ex.reached)-1]
			ex.stopBlocks = ex.stopBlocks[:len(ex.stopBlocks)-1]
			ex.reached = ex.reached[:len(ex.reached)-1]
			outs := append(o1, o2...)
			if len(rs) == 0 {
				return outs
			}
			return append(outs, ex.continueMerged(base, rs, J, depth)...)
		case *ssa.Jump:
			return ex.execFrom(st, b.Succs[0], 0, b)
		case *ssa.Return:
			var rs []*Val
			for _, r := range x.Results {
				rs = append(rs, ex.val(st, r))
			}
			return []Outcome{{st: st, kind: ORet, results: rs, site: x}}
		case *ssa.Panic:
			// run deferred calls is not modelled for panics; the outcome is a panic
			return []Outcome{{st: st, kind: OPanic, site: x, msg: "explicit panic"}}
		case *ssa.RunDefers:
			fr := st.top()
			ds := fr.defers
			fr.defers = nil
			return ex.runDefers(st, ds, b, i+1, pred)
		case ssa.CallInstruction:
			switch y := x.(type) {
			case *ssa.Defer:
				fr := st.top()
				d := &deferred{call: y.Common(), site: y}
				for _, a := range y.Common().Args {
					d.args = append(d.args, ex.val(st, a))
				}
				if !y.Common().IsInvoke() {
					d.fnv = ex.val(st, y.Common().Value)
				} else {
					d.fnv = ex.val(st, y.Common().Value)
				}
				fr.defers = append(fr.defers, d)
				continue
			case *ssa.Go:
				var as []*Val
				for _, a := range y.Common().Args {
					as = append(as, ex.val(st, a))
				}
				name := "?"
				if f := y.Common().StaticCallee(); f != nil {
					name = funcShort(f)
				}
				st.notes = append(st.notes, "go:"+name)
				ex.set(st, "G|ghost.goStarts|", Add(st.get("G|ghost.goStarts|", SInt), IntLit(1, SInt)))
				if f := y.Common().StaticCallee(); f != nil && !ex.collect {
					// the spawned function starts in (at least) the current state: its precondition is an obligation here
					if fc := ex.eng.contractFor(f); fc != nil {
						ctx := &callCtx{ex: ex, st: st, cc: y.Common(), site: y, sig: f.Signature, key: funcKey(f), args: as}
						ex.callPre(ctx, fc, f, "go")
					}
				}
				ex.note("A-go: a go statement is a no-op for the spawning function; the spawned function is verified separately")
				continue
			case *ssa.Call:
				var as []*Val
				for _, a := range y.Common().Args {
					as = append(as, ex.val(st, a))
				}
				conts := ex.doCall(st, y.Common(), ex.val(st, y.Common().Value), as, y)
				var outs []Outcome
				for _, c := range conts {
					if c.panicked {
						outs = append(outs, Outcome{st: c.st, kind: OPanic, site: y, msg: c.msg})
						continue
					}
					if c.val != nil {
						c.st.top().vals[y] = c.val
						if y.Common().IsInvoke() {
							// results of interface method calls are nameable too: call_<Method>
							mname := y.Common().Method.Name()
							c.st.top().names["call_"+mname] = namedVal{v: c.val}
							if c.val.K == VTuple {
								for i, e := range c.val.Fs {
									c.st.top().names[fmt.Sprintf("call_%s_%d", mname, i)] = namedVal{v: e}
								}
							}
						}
						if f := y.Common().StaticCallee(); f != nil {
							fname := f.Name()
							if o := f.Origin(); o != nil {
								fname = o.Name() // instances of a generic function are named like the function
							}
							c.st.top().names["call_"+fname] = namedVal{v: c.val}
							if _, seen := c.st.top().names["first_"+fname]; !seen {
								c.st.top().names["first_"+fname] = namedVal{v: c.val}
							}
							if c.val.K == VTuple {
								for i, e := range c.val.Fs {
									c.st.top().names[fmt.Sprintf("call_%s_%d", fname, i)] = namedVal{v: e}
								}
							}
						}
					}
					outs = append(outs, ex.execFrom(c.st, b, i+1, pred)...)
				}
				return outs
			}
		default:
			forks := ex.step(st, in)
			if forks != nil {
				var outs []Outcome
				for _, s := range forks {
					outs = append(outs, ex.execFrom(s, b, i+1, pred)...)
				}
				return outs
			}
		}
	}
	ex.fail("block %d of %s fell off the end", b.Index, fr.fn)
	return nil
}

func (ex *Exec) runDefers(st *State, ds []*deferred, b *ssa.BasicBlock, next int, pred *ssa.BasicBlock) []Outcome {
	if len(ds) == 0 {
		return ex.execFrom(st, b, next, pred)
	}
	d := ds[len(ds)-1]
	rest := ds[:len(ds)-1]
	conts := ex.doCall(st, d.call, d.fnv, d.args, d.site)
	var outs []Outcome
	for _, c := range conts {
		if c.panicked {
			outs = append(outs, Outcome{st: c.st, kind: OPanic, site: d.site, msg: c.msg})
			continue
		}
		outs = append(outs, ex.runDefers(c.st, rest, b, next, pred)...)
	}
	return outs
}

// step executes one non-control instruction. It returns nil when execution
// continues in st, or the list of successor states when it forks.
func (ex *Exec) step(st *State, in ssa.Instruction) []*State {
	fr := st.top()
	set := func(v ssa.Value, x *Val) { fr.vals[v] = x }
	switch x := in.(type) {
	case *ssa.DebugRef:
		if _, isIdent := x.Expr.(*ast.Ident); !isIdent {
			break
		}
		if obj := x.Object(); obj != nil {
			if vo, isVar := obj.(*types.Var); !isVar || vo.IsField() {
				break
			}
			if v, ok := ex.tryVal(st, x.X); ok {
				fr.names[obj.Name()] = namedVal{v: v, isAddr: x.IsAddr}
			}
		}
	case *ssa.Phi:
		// non-loop phi: predecessor is tracked via execFrom's pred, which we
		// do not have here; handled in phiStep
		ex.fail("internal: phi outside phiStep")
	case *ssa.Alloc:
		el := deref(x.Type())
		if arr, ok := el.Underlying().(*types.Array); ok {
			r := ex.newRef(st, "arr")
			set(x, &Val{K: VScalar, T: r, Ty: x.Type()})
			_ = arr
			break
		}
		r := ex.newRef(st, x.Comment)
		a := &Addr{Kind: AObj, Root: el, Obj: r, Ty: el}
		ex.store(st, a, zeroVal(el))
		set(x, &Val{K: VScalar, T: r, Ty: x.Type()})
		if x.Comment != "" && x.Comment != "complit" && x.Comment != "varargs" {
			fr.names[x.Comment] = namedVal{v: &Val{K: VAddr, A: a, Ty: x.Type()}, isAddr: true}
		}
	case *ssa.FieldAddr:
		base := ex.val(st, x.X)
		stT := deref(x.X.Type())
		f := stT.Underlying().(*types.Struct).Field(x.Field)
		a := ex.addrOf(st, base, stT, in)
		set(x, &Val{K: VAddr, A: a.field(f.Name(), f.Type()), Ty: x.Type()})
		ex.guardedAccess(st, stT, f.Name(), in)
	case *ssa.Field:
		base := ex.val(st, x.X)
		if base.K != VStruct {
			ex.fail("Field on non-struct value %s (%s)", base, typeKey(x.X.Type()))
		}
		set(x, base.Fs[x.Field])
	case *ssa.IndexAddr:
		base := ex.val(st, x.X)
		idx := ex.val(st, x.Index).T
		idx = toInt(idx, x.Index.Type())
		switch t := x.X.Type().Underlying().(type) {
		case *types.Slice:
			ex.safety(st, "index", And(Le(IntLit(0, SInt), idx), Lt(idx, base.Len)), in)
			set(x, &Val{K: VAddr, A: &Addr{Kind: AElem, Root: t.Elem(), Obj: base.Ref, Idx: idx, Ty: t.Elem()}, Ty: x.Type()})
		case *types.Pointer:
			arr := t.Elem().Underlying().(*types.Array)
			ex.safety(st, "index", And(Le(IntLit(0, SInt), idx), Lt(idx, IntLit(arr.Len(), SInt))), in)
			if base.K != VScalar {
				ex.fail("IndexAddr on interior array pointer")
			}
			set(x, &Val{K: VAddr, A: &Addr{Kind: AElem, Root: arr.Elem(), Obj: base.T, Idx: idx, Ty: arr.Elem()}, Ty: x.Type()})
		default:
			ex.fail("IndexAddr on %s", typeKey(x.X.Type()))
		}
	case *ssa.Index:
		base := ex.val(st, x.X)
		idx := toInt(ex.val(st, x.Index).T, x.Index.Type())
		if b, ok := x.X.Type().Underlying().(*types.Basic); ok && b.Info()&types.IsString != 0 {
			ex.safety(st, "index", And(Le(IntLit(0, SInt), idx), Lt(idx, slen(base.T))), in)
			set(x, scalar(App("byteAt", SBV(8), base.T, idx), x.Type()))
		} else {
			ex.fail("Index on %s", typeKey(x.X.Type()))
		}
	case *ssa.UnOp:
		a := ex.val(st, x.X)
		switch x.Op {
		case token.MUL:
			ad := ex.addrOf(st, a, deref(x.X.Type()), in)
			if ad.Kind == AElem && isByte(ad.Root) && ad.Path == "" {
				set(x, scalar(App("byteAt", SBV(8), ex.bytesOf(st, ad.Obj), ad.Idx), x.Type()))
			} else {
				v := ex.load(st, ad)
				ex.assumeLoaded(st, v)
				if a.K == VAddr && a.A.Kind == AGlobal {
					v = ex.globalValue(st, a.A, v)
				}
				set(x, v)
			}
		case token.NOT:
			set(x, scalar(Not(a.T), x.Type()))
		case token.SUB:
			if a.T.Sort.Kind == SKBV {
				set(x, scalar(BVOp("bvsub", BVLit64(0, a.T.Sort.Bits), a.T), x.Type()))
			} else if a.T.Sort.Kind == SKInt {
				set(x, scalar(Sub(IntLit(0, a.T.Sort), a.T), x.Type()))
			} else {
				set(x, freshVal("neg", x.Type()))
			}
		case token.ARROW:
			return ex.chanRecv(st, x, a)
		case token.XOR:
			set(x, freshVal("xor", x.Type()))
		default:
			ex.fail("unop %s", x.Op)
		}
	case *ssa.Store:
		av := ex.val(st, x.Addr)
		v := ex.val(st, x.Val)
		ad := ex.addrOf(st, av, deref(x.Addr.Type()), in)
		if ad.Kind == AElem && isByte(ad.Root) && ad.Path == "" {
			old := ex.bytesOf(st, ad.Obj)
			nb := Fresh("bytes", SStr)
			st.assume(Eq(slen(nb), slen(old)))
			ex.setBytes(st, ad.Obj, nb)
			ex.note("A-bytes: a store to one byte of a []byte havocs the content of that backing array (length kept)")
		} else {
			ex.store(st, ad, v)
		}
		if v.Clo != nil {
			// remember closures stored into named locals
			if av.K == VScalar {
				ex.cloAt[av.T] = v.Clo
			}
		}
	case *ssa.BinOp:
		set(x, ex.binop(st, x))
	case *ssa.ChangeType:
		v := ex.val(st, x.X)
		nv := *v
		nv.Ty = x.Type()
		set(x, &nv)
	case *ssa.ChangeInterface:
		v := ex.val(st, x.X)
		nv := *v
		nv.Ty = x.Type()
		nv.T = recast(v.T, shapeOf(x.Type()).Sort)
		set(x, &nv)
	case *ssa.MakeInterface:
		set(x, ex.makeInterface(st, ex.val(st, x.X), x.X.Type(), x.Type()))
	case *ssa.TypeAssert:
		return ex.typeAssert(st, x)
	case *ssa.Convert:
		set(x, ex.convert(st, ex.val(st, x.X), x.X.Type(), x.Type(), in))
	case *ssa.Extract:
		t := ex.val(st, x.Tuple)
		if t.K != VTuple && t.K != VStruct {
			ex.fail("extract from non-tuple %s", t)
		}
		set(x, t.Fs[x.Index])
	case *ssa.MakeMap:
		r := ex.newRef(st, "map")
		m := x.Type().Underlying().(*types.Map)
		dom, _ := mapNames(m)
		ks := keySort(m)
		d := st.get(dom, SArr(SRef, SArr(ks, SBool)))
		ex.setAt(st, dom, Store(d, r, mk("constarr", "", SArr(ks, SBool), nil, nil, TFalse)), r)
		ln := ex.mapLenName(m)
		ex.setAt(st, ln, Store(st.get(ln, SArr(SRef, SInt)), r, IntLit(0, SInt)), r)
		set(x, scalar(r, x.Type()))
	case *ssa.MakeSlice:
		r := ex.newRef(st, "slice")
		ln := toInt(ex.val(st, x.Len).T, x.Len.Type())
		el := x.Type().Underlying().(*types.Slice).Elem()
		if isByte(el) {
			nb := Fresh("zerobytes", SStr)
			st.assume(Eq(slen(nb), ln))
			ex.setBytes(st, r, nb)
		}
		set(x, &Val{K: VSlice, Ref: r, Len: ln, Ty: x.Type(), Elem: el})
	case *ssa.MakeChan:
		r := ex.newRef(st, "chan")
		cp := toInt(ex.val(st, x.Size).T, x.Size.Type())
		ex.setAt(st, "Chlen", Store(st.get("Chlen", SArr(SRef, SInt)), r, IntLit(0, SInt)), r)
		ex.setAt(st, "Chcap", Store(st.get("Chcap", SArr(SRef, SInt)), r, cp), r)
		ex.setAt(st, "Chclosed", Store(st.get("Chclosed", SArr(SRef, SBool)), r, TFalse), r)
		// a channel made by the program is a buffer: it is ready to receive iff it is non-empty
		st.assume(App("isSlot", SBool, r))
		set(x, scalar(r, x.Type()))
	case *ssa.MakeClosure:
		r := ex.newRef(st, "clo")
		fn := x.Fn.(*ssa.Function)
		var binds []*Val
		for _, b := range x.Bindings {
			binds = append(binds, ex.val(st, b))
		}
		st.assume(Eq(App("closfn", SInt, r), IntLit(int64(ex.eng.fnID(fn)), SInt)))
		set(x, &Val{K: VScalar, T: r, Ty: x.Type(), Clo: &closureInfo{fn: fn, binds: binds}})
	case *ssa.Lookup:
		base := ex.val(st, x.X)
		k := ex.val(st, x.Index)
		if m, ok := x.X.Type().Underlying().(*types.Map); ok {
			v := ex.mapGetMasked(st, m, base.T, k.T)
			if x.CommaOk {
				set(x, &Val{K: VTuple, Fs: []*Val{v, scalar(ex.mapHasNil(st, m, base.T, k.T), types.Typ[types.Bool])}})
			} else {
				set(x, v)
			}
		} else {
			idx := toInt(k.T, x.Index.Type())
			ex.safety(st, "index", And(Le(IntLit(0, SInt), idx), Lt(idx, slen(base.T))), in)
			set(x, scalar(App("byteAt", SBV(8), base.T, idx), x.Type()))
		}
	case *ssa.MapUpdate:
		m := ex.val(st, x.Map)
		mt := x.Map.Type().Underlying().(*types.Map)
		ex.safety(st, "nilmap", Neq(m.T, IntLit(0, SRef)), in)
		ex.mapUpdate(st, mt, m.T, ex.val(st, x.Key).T, ex.val(st, x.Value))
	case *ssa.Range:
		mt, ok := x.X.Type().Underlying().(*types.Map)
		if !ok {
			ex.fail("range over %s", typeKey(x.X.Type()))
		}
		ks := keySort(mt)
		set(x, &Val{K: VRange, Rng: &rangeState{mapVal: ex.val(st, x.X), mapTy: mt, visited: mk("constarr", "", SArr(ks, SBool), nil, nil, TFalse), instr: x}})
	case *ssa.Next:
		return ex.next(st, x)
	case *ssa.Slice:
		set(x, ex.sliceOp(st, x))
	case *ssa.Select:
		return ex.selectOp(st, x)
	case *ssa.Send:
		ch := ex.val(st, x.Chan)
		ln := st.get("Chlen", SArr(SRef, SInt))
		ex.set(st, "Chlen", Store(ln, ch.T, Add(Select(ln, ch.T), IntLit(1, SInt))))
	default:
		ex.fail("unsupported instruction %T: %s", in, in)
	}
	return nil
}

func (ex *Exec) tryVal(st *State, v ssa.Value) (r *Val, ok bool) {
	defer func() {
		if e := recover(); e != nil {
			if _, is := e.(unsupported); is {
				ok = false
				return
			}
			panic(e)
		}
	}()
	return ex.val(st, v), true
}

func toInt(t *Term, ty types.Type) *Term {
	if t.Sort.Kind == SKInt {
		return coerce(t, SInt)
	}
	if t.Sort.Kind == SKBV {
		if t.Op == "bv" {
			return IntLitBig(t.IVal, SInt)
		}
		return mk("bv2nat", "", SInt, nil, nil, t)
	}
	panic("toInt of " + t.Sort.Name)
}

func recast(t *Term, s *Sort) *Term {
	if t.Sort == s || t.Sort.Name != s.Name {
		return t
	}
	if t.Op == "int" {
		return IntLitBig(t.IVal, s)
	}
	return t
}

// addrOf turns a pointer value into an address of its pointee (type el).
func (ex *Exec) addrOf(st *State, p *Val, el types.Type, in ssa.Instruction) *Addr {
	if p.K == VAddr {
		return p.A
	}
	if p.K != VScalar {
		ex.fail("dereference of non-pointer %s", p)
	}
	ex.safety(st, "nil", Neq(p.T, IntLit(0, p.T.Sort)), in)
	return &Addr{Kind: AObj, Root: el, Obj: recast(p.T, SRef), Ty: el}
}

func (ex *Exec) safety(st *State, kind string, goal *Term, in ssa.Instruction) {
	if ex.collect || goal.Op == "true" {
		if !ex.collect {
			ex.trivialSafety++
		}
		return
	}
	fr := st.top()
	where := ""
	if in != nil {
		where = ex.eng.pos(in.Pos())
		if where == "" {
			where = "block " + fmt.Sprint(in.Block().Index)
		}
	}
	label := fmt.Sprintf("%s@%s", kind, instrLabel(fr.fn, in))
	o := ex.oblige(st, "safety."+kind, label, nil, goal, in.String(), where)
	_ = o
	st.assume(goal)
}

// instrLabel names an instruction stably: function-relative ordinal among
// instructions of the same kind.
func instrLabel(fn *ssa.Function, in ssa.Instruction) string {
	n := 0
	for _, b := range fn.Blocks {
		for _, i := range b.Instrs {
			if i == in {
				return fmt.Sprintf("%s#%d", short(funcShort(fn)), n)
			}
			if fmt.Sprintf("%T", i) == fmt.Sprintf("%T", in) {
				n++
			}
		}
	}
	return "?"
}

func (ex *Exec) globalValue(st *State, a *Addr, loaded *Val) *Val {
	// Sentinel error variables are treated as immutable, distinct, non-nil constants.
	if loaded.K == VScalar && loaded.T.Sort == SErr && a.Path == "" {
		ex.note("A-globals: package-level error variables are never reassigned and are pairwise distinct")
		c := Sym("errvar$"+short(a.Glob), SErr)
		ex.eng.errVars[c] = true
		return scalar(c, loaded.Ty)
	}
	if loaded.K == VScalar && a.Path == "" {
		if s := loaded.T.Sort; s == SRef || s == SIface {
			// reflect.Type globals etc: stable constants
			return scalar(Sym("globvar$"+short(a.Glob), s), loaded.Ty)
		}
	}
	return loaded
}

// ---------------------------------------------------------------- operators

func (ex *Exec) binop(st *State, x *ssa.BinOp) *Val {
	a, b := ex.val(st, x.X), ex.val(st, x.Y)
	rt := x.Type()
	switch x.Op {
	case token.EQL, token.NEQ:
		var eq *Term
		if a.K == VScalar && b.K == VScalar {
			eq = Eq(a.T, coerce(b.T, a.T.Sort))
			if a.T.Sort == SF64 {
				eq = Fresh("feq", SBool)
			}
		} else if a.K == VSlice || b.K == VSlice {
			// slices compare only against nil
			s := a
			if b.K == VSlice && (a.K != VSlice || isNilSlice(a)) {
				s = b
			}
			eq = And(Eq(s.Ref, IntLit(0, SRef)), Eq(s.Len, IntLit(0, SInt)))
			ex.note("A-nilslice: a slice is nil iff its backing reference is 0 (then its length is 0)")
			eq = Eq(s.Ref, IntLit(0, SRef))
		} else {
			eq = valEq(a, b)
		}
		if x.Op == token.NEQ {
			eq = Not(eq)
		}
		return scalar(eq, rt)
	}
	if a.K != VScalar || b.K != VScalar {
		ex.fail("binop %s on non-scalars", x.Op)
	}
	s := a.T.Sort
	switch {
	case s == SStr:
		switch x.Op {
		case token.ADD:
			return scalar(strCat(a.T, b.T), rt)
		case token.LSS:
			return scalar(App("strLess", SBool, a.T, b.T), rt)
		case token.GTR:
			return scalar(App("strLess", SBool, b.T, a.T), rt)
		case token.LEQ:
			return scalar(Not(App("strLess", SBool, b.T, a.T)), rt)
		case token.GEQ:
			return scalar(Not(App("strLess", SBool, a.T, b.T)), rt)
		}
	case s.Kind == SKBool:
		switch x.Op {
		case token.AND, token.LAND:
			return scalar(And(a.T, b.T), rt)
		case token.OR, token.LOR:
			return scalar(Or(a.T, b.T), rt)
		}
	case s.Kind == SKInt:
		bt := coerce(b.T, s)
		switch x.Op {
		case token.ADD:
			return scalar(Add(a.T, bt), rt)
		case token.SUB:
			return scalar(Sub(a.T, bt), rt)
		case token.MUL:
			return scalar(Mul(a.T, bt), rt)
		case token.QUO:
			ex.safety(st, "divzero", Neq(bt, IntLit(0, s)), x)
			return scalar(goDiv(a.T, bt), rt)
		case token.REM:
			ex.safety(st, "divzero", Neq(bt, IntLit(0, s)), x)
			return scalar(goRem(a.T, bt), rt)
		case token.LSS:
			return scalar(Lt(a.T, bt), rt)
		case token.LEQ:
			return scalar(Le(a.T, bt), rt)
		case token.GTR:
			return scalar(Gt(a.T, bt), rt)
		case token.GEQ:
			return scalar(Ge(a.T, bt), rt)
		}
	case s.Kind == SKBV:
		signed := isSigned(x.X.Type())
		bt := b.T
		if bt.Sort.Kind != SKBV {
			bt = coerce(bt, s)
		}
		switch x.Op {
		case token.ADD:
			return scalar(BVOp("bvadd", a.T, bt), rt)
		case token.SUB:
			return scalar(BVOp("bvsub", a.T, bt), rt)
		case token.MUL:
			return scalar(BVOp("bvmul", a.T, bt), rt)
		case token.AND:
			return scalar(BVOp("bvand", a.T, bt), rt)
		case token.OR:
			return scalar(BVOp("bvor", a.T, bt), rt)
		case token.XOR:
			return scalar(BVOp("bvxor", a.T, bt), rt)
		case token.LSS, token.LEQ, token.GTR, token.GEQ:
			l, r := a.T, bt
			op := x.Op
			if op == token.GTR || op == token.GEQ {
				l, r = r, l
				if op == token.GTR {
					op = token.LSS
				} else {
					op = token.LEQ
				}
			}
			name := "bvult"
			if op == token.LEQ {
				name = "bvule"
			}
			if signed {
				name = strings.Replace(name, "bvu", "bvs", 1)
			}
			return scalar(BVCmp(name, l, r), rt)
		}
	}
	ex.note("A-arith: unmodelled operator " + x.Op.String() + " on " + s.Name + " yields an unconstrained value")
	return freshVal("binop", rt)
}

func isNilSlice(v *Val) bool {
	return v.K == VSlice && v.Ref.Op == "int" && v.Ref.IVal.Sign() == 0
}

// Go's truncated division on mathematical integers.
func goDiv(a, b *Term) *Term {
	if a.Op == "int" && b.Op == "int" && b.IVal.Sign() != 0 {
		q := new(bigInt).Quo(a.IVal, b.IVal)
		return IntLitBig(q, a.Sort)
	}
	z := IntLit(0, a.Sort)
	// for a >= 0 and b > 0, SMT div coincides with truncation
	return Ite(And(Ge(a, z), Gt(b, z)), Div(a, b), App("truncdiv", a.Sort, a, b))
}
func goRem(a, b *Term) *Term {
	z := IntLit(0, a.Sort)
	return Ite(And(Ge(a, z), Gt(b, z)), Mod(a, b), App("truncrem", a.Sort, a, b))
}

func strCat(a, b *Term) *Term {
	if a.Op == "strlit" && b.Op == "strlit" {
		return StrLit(a.Name + b.Name)
	}
	if a.Op == "strlit" && a.Name == "" {
		return b
	}
	if b.Op == "strlit" && b.Name == "" {
		return a
	}
	return App("cat", SStr, a, b)
}

func (ex *Exec) makeInterface(st *State, v *Val, from, to types.Type) *Val {
	tsort := shapeOf(to).Sort
	tid := IntLit(int64(ex.eng.typeID(from)), SInt)
	sh := shapeOf(from)
	if v.K == VAddr {
		// interior pointer (address of a field or element) converted to an interface
		r := recast(v.leaves()[0], tsort)
		st.assume(Eq(App("dyntype", SInt, recast(r, SIface)), tid))
		nv := &Val{K: VScalar, T: r, Ty: to, Box: v, BoxTy: from}
		ex.boxes[r] = &boxInfo{val: v, ty: from}
		return nv
	}
	if sh.K == ShScalar && sh.Sort == SRef {
		r := recast(v.T, tsort)
		if r.Op == "int" {
			// typed nil pointer in an interface: not modelled as non-nil
			ex.note("A-typednil: a nil pointer stored in an interface is treated as a nil interface")
		}
		st.assume(Implies(Neq(v.T, IntLit(0, SRef)), Eq(App("dyntype", SInt, recast(v.T, SIface)), tid)))
		nv := &Val{K: VScalar, T: r, Ty: to, Clo: v.Clo, Box: v, BoxTy: from}
		ex.boxes[r] = &boxInfo{val: v, ty: from}
		return nv
	}
	// boxed value
	r := ex.newRef(st, "box")
	ri := recast(r, SIface)
	st.assume(Eq(App("dyntype", SInt, ri), tid))
	ls := shapeLeaves(sh, "")
	ts := v.leaves()
	for i, l := range ls {
		st.assume(Eq(App("unbox|"+short(typeKey(from))+"|"+l.path, l.sort, ri), coerce(ts[i], l.sort)))
	}
	ex.boxes[recast(r, tsort)] = &boxInfo{val: v, ty: from}
	ex.boxes[r] = &boxInfo{val: v, ty: from}
	return &Val{K: VScalar, T: recast(r, tsort), Ty: to, Box: v, BoxTy: from}
}

func (ex *Exec) typeAssert(st *State, x *ssa.TypeAssert) []*State {
	fr := st.top()
	v := ex.val(st, x.X)
	ri := recast(v.T, SIface)
	nonnil := Neq(v.T, IntLit(0, v.T.Sort))
	var ok *Term
	var res *Val
	if tp, isTP := v.BoxTy.(*types.TypeParam); isTP && tp != nil {
		// a value of type-parameter type: its dynamic type is unknown
		v = &Val{K: v.K, T: v.T, Ty: v.Ty, Clo: v.Clo}
	}
	if _, isIface := x.AssertedType.Underlying().(*types.Interface); isIface {
		if v.Box != nil && v.BoxTy != nil {
			ok = And(nonnil, Bool(types.Implements(v.BoxTy, x.AssertedType.Underlying().(*types.Interface))))
		} else if types.Implements(x.X.Type(), x.AssertedType.Underlying().(*types.Interface)) {
			ok = nonnil
		} else {
			ok = And(nonnil, App("implements", SBool, App("dyntype", SInt, ri), IntLit(int64(ex.eng.typeID(x.AssertedType)), SInt)))
		}
		res = &Val{K: VScalar, T: recast(v.T, shapeOf(x.AssertedType).Sort), Ty: x.AssertedType, Box: v.Box, BoxTy: v.BoxTy, Clo: v.Clo}
	} else {
		if v.Box != nil && v.BoxTy != nil {
			same := types.Identical(v.BoxTy, x.AssertedType)
			ok = And(nonnil, Bool(same))
			if same {
				res = v.Box
			}
		} else {
			ok = And(nonnil, Eq(App("dyntype", SInt, ri), IntLit(int64(ex.eng.typeID(x.AssertedType)), SInt)))
		}
		if res == nil {
			sh := shapeOf(x.AssertedType)
			if sh.K == ShScalar && sh.Sort == SRef {
				res = &Val{K: VScalar, T: recast(v.T, SRef), Ty: x.AssertedType, Clo: v.Clo}
			} else {
				ls := shapeLeaves(sh, "")
				ts := make([]*Term, len(ls))
				for i, l := range ls {
					ts[i] = App("unbox|"+short(typeKey(x.AssertedType))+"|"+l.path, l.sort, ri)
				}
				res, _ = rebuildVal(x.AssertedType, ts)
			}
		}
	}
	if x.CommaOk {
		zero := zeroVal(x.AssertedType)
		// value is the zero value when !ok
		ls, zs := res.leaves(), zero.leaves()
		out := make([]*Term, len(ls))
		for i := range ls {
			out[i] = Ite(ok, ls[i], coerce(zs[i], ls[i].Sort))
		}
		rv, _ := rebuildVal(x.AssertedType, out)
		rv.Clo, rv.Box, rv.BoxTy = res.Clo, res.Box, res.BoxTy
		fr.vals[x] = &Val{K: VTuple, Fs: []*Val{rv, scalar(ok, types.Typ[types.Bool])}}
		return nil
	}
	ex.safety(st, "assert", ok, x)
	fr.vals[x] = res
	return nil
}

func (ex *Exec) convert(st *State, v *Val, from, to types.Type, in ssa.Instruction) *Val {
	fs, ts := shapeOf(from), shapeOf(to)
	switch {
	case fs.K == ShSlice && ts.K == ShScalar && ts.Sort == SStr: // string(bytes)
		if !isByte(fs.Elem) {
			return freshVal("conv", to)
		}
		c := ex.bytesOf(st, v.Ref)
		st.assume(Implies(Neq(v.Ref, IntLit(0, SRef)), Eq(slen(c), v.Len)))
		return scalar(Ite(Eq(v.Len, IntLit(0, SInt)), StrLit(""), c), to)
	case fs.K == ShScalar && fs.Sort == SStr && ts.K == ShSlice: // []byte(s)
		if !isByte(ts.Elem) {
			return freshVal("conv", to)
		}
		r := ex.newRef(st, "bytes")
		ex.setBytes(st, r, v.T)
		return &Val{K: VSlice, Ref: r, Len: slen(v.T), Ty: to, Elem: ts.Elem}
	case fs.K == ShScalar && ts.K == ShScalar:
		a, b := fs.Sort, ts.Sort
		switch {
		case a == b:
			return scalar(v.T, to)
		case a.Name == b.Name:
			return scalar(recast(v.T, b), to)
		case a.Kind == SKBV && b.Kind == SKBV:
			if b.Bits == a.Bits {
				return scalar(v.T, to)
			}
			if b.Bits < a.Bits {
				if v.T.Op == "bv" {
					return scalar(BVLit(v.T.IVal, b.Bits), to)
				}
				return scalar(mk(fmt.Sprintf("(_ extract %d 0)", b.Bits-1), "", b, nil, nil, v.T), to)
			}
			op := "zero_extend"
			if isSigned(from) {
				op = "sign_extend"
			}
			if v.T.Op == "bv" && !isSigned(from) {
				return scalar(BVLit(v.T.IVal, b.Bits), to)
			}
			return scalar(mk(fmt.Sprintf("(_ %s %d)", op, b.Bits-a.Bits), "", b, nil, nil, v.T), to)
		case a.Kind == SKBV && b.Kind == SKInt:
			if isSigned(from) {
				ex.note("A-int: signed fixed-width to int conversion treated as unsigned")
			}
			return scalar(recast(toInt(v.T, from), b), to)
		case a.Kind == SKInt && b.Kind == SKBV:
			if v.T.Op == "int" {
				return scalar(BVLit(v.T.IVal, b.Bits), to)
			}
			return scalar(mk(fmt.Sprintf("(_ int2bv %d)", b.Bits), "", b, nil, nil, v.T), to)
		}
		ex.note("A-conv: conversion " + typeKey(from) + " -> " + typeKey(to) + " yields an unconstrained value")
		return freshVal("conv", to)
	}
	ex.note("A-conv: conversion " + typeKey(from) + " -> " + typeKey(to) + " yields an unconstrained value")
	return freshVal("conv", to)
}

func (ex *Exec) sliceOp(st *State, x *ssa.Slice) *Val {
	base := ex.val(st, x.X)
	var lo, hi *Term
	if x.Low != nil {
		lo = toInt(ex.val(st, x.Low).T, x.Low.Type())
	} else {
		lo = IntLit(0, SInt)
	}
	switch t := x.X.Type().Underlying().(type) {
	case *types.Pointer: // pointer to array
		arr := t.Elem().Underlying().(*types.Array)
		if x.High != nil {
			hi = toInt(ex.val(st, x.High).T, x.High.Type())
		} else {
			hi = IntLit(arr.Len(), SInt)
		}
		if lo.Op == "int" && lo.IVal.Sign() == 0 {
			return &Val{K: VSlice, Ref: base.T, Len: hi, Ty: x.Type(), Elem: arr.Elem()}
		}
	case *types.Basic: // string
		if x.High != nil {
			hi = toInt(ex.val(st, x.High).T, x.High.Type())
		} else {
			hi = slen(base.T)
		}
		ex.safety(st, "slice", And(Le(IntLit(0, SInt), lo), Le(lo, hi), Le(hi, slen(base.T))), x)
		r := App("substr", SStr, base.T, lo, hi)
		st.assume(Eq(slen(r), Sub(hi, lo)))
		return scalar(r, x.Type())
	case *types.Slice:
		if x.High != nil {
			hi = toInt(ex.val(st, x.High).T, x.High.Type())
		} else {
			hi = base.Len
		}
		ex.safety(st, "slice", And(Le(IntLit(0, SInt), lo), Le(lo, hi)), x)
		if lo.Op == "int" && lo.IVal.Sign() == 0 && hi == base.Len {
			return base
		}
		r := ex.newRef(st, "subslice")
		ex.note("A-subslice: a re-sliced slice is modelled as a copy of the selected elements (no aliasing with the original)")
		if isByte(t.Elem()) {
			c := App("substr", SStr, ex.bytesOf(st, base.Ref), lo, hi)
			st.assume(Eq(slen(c), Sub(hi, lo)))
			ex.setBytes(st, r, c)
		} else {
			j := BVar("j", SInt)
			for _, l := range shapeLeaves(shapeOf(t.Elem()), "") {
				n := "E|" + short(typeKey(t.Elem())) + "|" + l.path
				arr := st.get(n, SArr(SRef, SArr(SInt, l.sort)))
				na := Fresh("subelems", SArr(SInt, l.sort))
				st.assume(Forall([]*Term{j}, Eq(Select(na, j), Select(Select(arr, base.Ref), Add(j, lo)))))
				ex.setAt(st, n, Store(arr, r, na), r)
			}
		}
		return &Val{K: VSlice, Ref: r, Len: Sub(hi, lo), Ty: x.Type(), Elem: t.Elem()}
	}
	ex.fail("slice op on %s", typeKey(x.X.Type()))
	return nil
}

// mapHasNil: reading a nil map is allowed and finds nothing.
func (ex *Exec) mapHasNil(st *State, m *types.Map, ref, key *Term) *Term {
	return And(Neq(ref, IntLit(0, SRef)), ex.mapHas(st, m, ref, key))
}

// mapGetMasked implements Go's lookup: the zero value for absent keys.
func (ex *Exec) mapGetMasked(st *State, m *types.Map, ref, key *Term) *Val {
	has := ex.mapHasNil(st, m, ref, key)
	raw := ex.mapGet(st, m, ref, key)
	zero := zeroVal(m.Elem())
	ls, zs := raw.leaves(), zero.leaves()
	out := make([]*Term, len(ls))
	for i := range ls {
		out[i] = Ite(has, ls[i], coerce(zs[i], ls[i].Sort))
	}
	v, _ := rebuildVal(m.Elem(), out)
	return v
}

func (ex *Exec) next(st *State, x *ssa.Next) []*State {
	fr := st.top()
	it := ex.val(st, x.Iter)
	if it.K != VRange {
		ex.fail("next on non-range")
	}
	rs := it.Rng
	m := rs.mapTy
	ks := keySort(m)
	ref := rs.mapVal.T
	// exit branch
	s2 := st.clone()
	k := BVar("k", ks)
	s2.assume(Forall([]*Term{k}, Implies(ex.mapHasNil(s2, m, ref, k), Select(rs.visited, k))))
	s2.path += "x"
	s2.top().vals[x] = &Val{K: VTuple, Fs: []*Val{scalar(TFalse, types.Typ[types.Bool]), zeroVal(m.Key()), zeroVal(m.Elem())}}
	// body branch
	key := Fresh("rk", ks)
	st.assume(ex.mapHasNil(st, m, ref, key))
	st.assume(Not(Select(rs.visited, key)))
	nr := *rs
	nr.visited = Store(rs.visited, key, TTrue)
	fr.vals[x.Iter] = &Val{K: VRange, Rng: &nr}
	fr.names["$rangekey"] = namedVal{v: scalar(key, m.Key())}
	st.path += "n"
	fr.vals[x] = &Val{K: VTuple, Fs: []*Val{scalar(TTrue, types.Typ[types.Bool]), scalar(key, m.Key()), ex.mapGetMasked(st, m, ref, key)}}
	return []*State{st, s2}
}

func (ex *Exec) chanRecv(st *State, x *ssa.UnOp, ch *Val) []*State {
	fr := st.top()
	el := x.X.Type().Underlying().(*types.Chan).Elem()
	v := freshVal("recv", el)
	ln := st.get("Chlen", SArr(SRef, SInt))
	st.assume(Ge(Select(ln, ch.T), IntLit(0, SInt)))
	ex.note("A-chan: a blocking receive is assumed to complete (no deadlock/termination claim)")
	ex.waitOn(st, ch.T)
	ex.countSlotRecv(st, ch.T)
	if x.CommaOk {
		fr.vals[x] = &Val{K: VTuple, Fs: []*Val{v, scalar(Fresh("recvok", SBool), types.Typ[types.Bool])}}
	} else {
		fr.vals[x] = v
	}
	return nil
}

func (ex *Exec) selectOp(st *State, x *ssa.Select) []*State {
	// Each ready case is a branch; a non-blocking select adds the default (-1).
	var outs []*State
	n := len(x.States)
	mkRes := func(s *State, idx int, chosen *ssa.SelectState) {
		fs := []*Val{scalar(IntLit(int64(idx), SInt), types.Typ[types.Int]), scalar(Fresh("recvok", SBool), types.Typ[types.Bool])}
		for _, ss := range x.States {
			if ss.Dir == types.RecvOnly {
				fs = append(fs, freshVal("recv", ss.Chan.Type().Underlying().(*types.Chan).Elem()))
			}
		}
		s.top().vals[x] = &Val{K: VTuple, Fs: fs}
	}
	for i, ss := range x.States {
		s := st
		if i < n-1 || !x.Blocking {
			s = st.clone()
		}
		ch := ex.val(s, ss.Chan)
		ln := s.get("Chlen", SArr(SRef, SInt))
		cp := s.get("Chcap", SArr(SRef, SInt))
		cur := Select(ln, ch.T)
		if ss.Dir == types.SendOnly {
			// send succeeds iff there is room
			s.assume(Lt(cur, Select(cp, ch.T)))
			ex.set(s, "Chlen", Store(ln, ch.T, Add(cur, IntLit(1, SInt))))
		} else {
			// receive: ready (for ghost-tracked channels: non-empty)
			s.assume(App("chanReady", SBool, ch.T, cur))
			s.assume(Implies(App("isSlot", SBool, ch.T), Gt(cur, IntLit(0, SInt))))
			ex.countSlotRecv(s, ch.T)
			if !(ch.T.Op == "app" && ch.T.Name == "doneChan") {
				// (a context's Done channel is only ever closed: receiving does not change any occupancy)
				ex.set(s, "Chlen", Store(ln, ch.T, Ite(Gt(cur, IntLit(0, SInt)), Sub(cur, IntLit(1, SInt)), cur)))
			}
		}
		s.path += fmt.Sprintf("s%d", i)
		s.notes = append(s.notes, fmt.Sprintf("select:%s#%d", instrLabel(x.Parent(), x), i))
		mkRes(s, i, ss)
		ex.selectHook(s, x, i)
		outs = append(outs, s)
	}
	if !x.Blocking {
		s := st
		// default: no case ready
		for _, ss := range x.States {
			ch := ex.val(s, ss.Chan)
			cur := Select(s.get("Chlen", SArr(SRef, SInt)), ch.T)
			if ss.Dir == types.SendOnly {
				s.assume(Ge(cur, Select(s.get("Chcap", SArr(SRef, SInt)), ch.T)))
			} else {
				s.assume(Not(App("chanReady", SBool, ch.T, cur)))
				s.assume(Implies(App("isSlot", SBool, ch.T), Le(cur, IntLit(0, SInt))))
			}
		}
		s.path += "sd"
		mkRes(s, -1, nil)
		outs = append(outs, s)
	}
	return outs
}

// selectHook models ghost time for a blocking select: the chosen channel fired,
// the virtual clock did not go backwards and is past the timer's due time, and
// one blocking wait happened.
func (ex *Exec) selectHook(s *State, x *ssa.Select, i int) {
	if !x.Blocking {
		return
	}
	ch := ex.val(s, x.States[i].Chan).T
	ex.waitOn(s, ch)
}

// countSlotRecv: the ghost slotRecvs counts receives from channels made by the program (signals consumed).
func (ex *Exec) countSlotRecv(s *State, ch *Term) {
	n := s.get(ghostSlotRecvs, SInt)
	ex.set(s, ghostSlotRecvs, Add(n, Ite(App("isSlot", SBool, ch), IntLit(1, SInt), IntLit(0, SInt))))
}

const ghostSlotRecvs = "G|ghost.slotRecvs|"
const ghostClock = "G|ghost.clock|"
const ghostWaits = "G|ghost.waits|"

func (ex *Exec) waitOn(s *State, ch *Term) {
	ex.note("A-ctx/time: blocking waits advance one ghost clock; a timer channel fires no earlier than its due time; ctx.Done fires only if the context ended")
	old := s.get(ghostClock, SInt)
	nc := Fresh("clock", SInt)
	s.assume(Ge(nc, old))
	s.assume(Implies(App("isTimer", SBool, ch), Ge(nc, App("timerOf", SInt, ch))))
	s.assume(App("chanFired", SBool, ch, nc))
	ex.set(s, ghostClock, nc)
	w := s.get(ghostWaits, SInt)
	ex.set(s, ghostWaits, Add(w, IntLit(1, SInt)))
}

// assumeLoaded adds the type invariants of values read from the heap: slice
// lengths are non-negative, a nil slice has length 0.
func (ex *Exec) assumeLoaded(st *State, v *Val) {
	switch v.K {
	case VSlice:
		st.assume(Ge(v.Len, IntLit(0, SInt)))
		st.assume(Implies(Eq(v.Ref, IntLit(0, SRef)), Eq(v.Len, IntLit(0, SInt))))
	case VStruct, VTuple:
		for _, f := range v.Fs {
			ex.assumeLoaded(st, f)
		}
	}
}

// continueMerged resumes execution at join block J from the states that reached it.
func (ex *Exec) continueMerged(base *pcNode, rs []reach, J *ssa.BasicBlock, depth int) []Outcome {
	li := ex.eng.loops(J.Parent())
	_, isHead := li.heads[J]
	fallback := func() []Outcome {
		var outs []Outcome
		for _, r := range rs {
			ex.skipStop = true
			outs = append(outs, ex.execFromNoStop(r.st, J, r.pred)...)
		}
		return outs
	}
	if len(rs) == 1 {
		return ex.execFromNoStop(rs[0].st, J, rs[0].pred)
	}
	for _, r := range rs {
		if len(r.st.frames) != depth {
			return fallback()
		}
	}
	var pred *ssa.BasicBlock
	if isHead {
		// a loop head evaluates its phis itself: all states must come from the same predecessor
		pred = rs[0].pred
		for _, r := range rs {
			if r.pred != pred {
				return fallback()
			}
		}
	} else {
		// evaluate J's phis in each state with its own predecessor, then merge
		for _, r := range rs {
			fr := r.st.top()
			var phis []*ssa.Phi
			var vals []*Val
			for _, in := range J.Instrs {
				phi, ok := in.(*ssa.Phi)
				if !ok {
					break
				}
				for i, p := range J.Preds {
					if p == r.pred {
						phis = append(phis, phi)
						vals = append(vals, ex.val(r.st, phi.Edges[i]))
					}
				}
			}
			for i, phi := range phis {
				fr.vals[phi] = vals[i]
				if phi.Comment != "" {
					fr.names[phi.Comment] = namedVal{v: vals[i]}
				}
			}
		}
	}
	sts := make([]*State, len(rs))
	for i, r := range rs {
		sts[i] = r.st
	}
	m := ex.mergeStates(base, sts)
	if m == nil {
		return fallback()
	}
	if isHead {
		return ex.execFromNoStop(m, J, pred)
	}
	idx := 0
	for idx < len(J.Instrs) {
		if _, ok := J.Instrs[idx].(*ssa.Phi); !ok {
			break
		}
		idx++
	}
	if idx == 0 {
		return ex.execFromNoStop(m, J, rs[0].pred)
	}
	return ex.execFrom(m, J, idx, nil)
}

// execFromNoStop enters block b even if it is the innermost stop block (used when
// resuming after a merge: the stop entry for b has already been popped).
func (ex *Exec) execFromNoStop(st *State, b *ssa.BasicBlock, pred *ssa.BasicBlock) []Outcome {
	return ex.execFrom(st, b, 0, pred)
}
