package main

// Term DAG with sorts, hash-consing, light simplification and SMT-LIB printing.

import (
	"fmt"
	"math/big"
	"sort"
	"strconv"
	"strings"
	"sync"
	"sync/atomic"
)

var termMu sync.Mutex

type SortKind int

const (
	SKBool SortKind = iota
	SKInt
	SKBV
	SKUnint
	SKArray
)

// Sort is an SMT sort plus a generator-side class. Classes "int", "ref",
// "err", "iface", "time" all print as Int; the class only guides quantifier
// instantiation and model concretisation.
type Sort struct {
	Kind  SortKind
	Name  string // SMT text
	Class string
	Bits  int
	K, V  *Sort
}

var sortTab = map[string]*Sort{}

func mkSort(kind SortKind, name, class string, bits int, k, v *Sort) *Sort {
	key := name + "#" + class
	termMu.Lock()
	defer termMu.Unlock()
	if s, ok := sortTab[key]; ok {
		return s
	}
	s := &Sort{Kind: kind, Name: name, Class: class, Bits: bits, K: k, V: v}
	sortTab[key] = s
	return s
}

var (
	SBool  = mkSort(SKBool, "Bool", "bool", 0, nil, nil)
	SInt   = mkSort(SKInt, "Int", "int", 0, nil, nil)
	SRef   = mkSort(SKInt, "Int", "ref", 0, nil, nil)
	SErr   = mkSort(SKInt, "Int", "err", 0, nil, nil)
	SIface = mkSort(SKInt, "Int", "iface", 0, nil, nil)
	STime  = mkSort(SKInt, "Int", "time", 0, nil, nil)
	SStr   = mkSort(SKUnint, "S", "S", 0, nil, nil)
	SOpq   = mkSort(SKUnint, "O", "O", 0, nil, nil)
	SF64   = mkSort(SKUnint, "F64", "F64", 0, nil, nil)
)

func SBV(n int) *Sort {
	return mkSort(SKBV, fmt.Sprintf("(_ BitVec %d)", n), fmt.Sprintf("bv%d", n), n, nil, nil)
}
func SArr(k, v *Sort) *Sort {
	return mkSort(SKArray, fmt.Sprintf("(Array %s %s)", k.Name, v.Name), "arr("+k.Class+","+v.Class+")", 0, k, v)
}
func SUnint(name string) *Sort { return mkSort(SKUnint, name, name, 0, nil, nil) }

type Term struct {
	Op     string
	Args   []*Term
	Name   string
	Sort   *Sort
	IVal   *big.Int
	Vars   []*Term // bound variables for forall/exists
	id     int
	size   int
	fv     bool // contains a bound variable
	maxSeq int  // largest creation number of a Fresh symbol inside
}

const termShards = 256

type termShard struct {
	mu sync.Mutex
	m  map[string]*Term
}

var termShardTab [termShards]termShard

var termSeqAtomic int64

func mk(op, name string, srt *Sort, ival *big.Int, vars []*Term, args ...*Term) *Term {
	buf := make([]byte, 0, 64)
	buf = append(buf, op...)
	buf = append(buf, '|')
	buf = append(buf, name...)
	buf = append(buf, '|')
	if ival != nil {
		buf = ival.Append(buf, 10)
	}
	buf = append(buf, '|')
	buf = append(buf, srt.Name...)
	buf = append(buf, srt.Class...)
	for _, v := range vars {
		buf = append(buf, '^')
		buf = strconv.AppendInt(buf, int64(v.id), 10)
	}
	for _, a := range args {
		buf = append(buf, ',')
		buf = strconv.AppendInt(buf, int64(a.id), 10)
	}
	h := uint32(2166136261)
	for _, c := range buf {
		h ^= uint32(c)
		h *= 16777619
	}
	sh := &termShardTab[h%termShards]
	key := string(buf)
	sh.mu.Lock()
	defer sh.mu.Unlock()
	if sh.m == nil {
		sh.m = map[string]*Term{}
	}
	if t, ok := sh.m[key]; ok {
		return t
	}
	t := &Term{Op: op, Name: name, Sort: srt, IVal: ival, Vars: vars, Args: args, id: int(atomic.AddInt64(&termSeqAtomic, 1)), size: 1}
	for _, a := range args {
		t.size += a.size
		if a.fv {
			t.fv = true
		}
	}
	if t.size > 1<<30 {
		t.size = 1 << 30
	}
	if op == "var" {
		t.fv = true
	}
	for _, a := range args {
		if a.maxSeq > t.maxSeq {
			t.maxSeq = a.maxSeq
		}
	}
	if op == "sym" {
		if i := strings.LastIndexByte(name, '!'); i >= 0 {
			n := 0
			ok := i+1 < len(name)
			for _, c := range name[i+1:] {
				if c < '0' || c > '9' {
					ok = false
					break
				}
				n = n*10 + int(c-'0')
			}
			if ok {
				t.maxSeq = n
			}
		}
	}
	sh.m[key] = t
	return t
}

var (
	TTrue  = mk("true", "", SBool, nil, nil)
	TFalse = mk("false", "", SBool, nil, nil)
)

func Sym(name string, s *Sort) *Term  { return mk("sym", name, s, nil, nil) }
func BVar(name string, s *Sort) *Term { return mk("var", name, s, nil, nil) }

var freshSeq int

func Fresh(prefix string, s *Sort) *Term {
	termMu.Lock()
	freshSeq++
	n := freshSeq
	termMu.Unlock()
	return Sym(fmt.Sprintf("%s!%d", prefix, n), s)
}
func IntLit(v int64, s *Sort) *Term { return mk("int", "", s, big.NewInt(v), nil) }
func IntLitBig(v *big.Int, s *Sort) *Term {
	return mk("int", "", s, new(big.Int).Set(v), nil)
}
func BVLit(v *big.Int, bits int) *Term {
	m := new(big.Int).Lsh(big.NewInt(1), uint(bits))
	x := new(big.Int).Mod(v, m)
	return mk("bv", "", SBV(bits), x, nil)
}
func BVLit64(v uint64, bits int) *Term { return BVLit(new(big.Int).SetUint64(v), bits) }
func Bool(b bool) *Term {
	if b {
		return TTrue
	}
	return TFalse
}

func isLit(t *Term) bool { return t.Op == "int" || t.Op == "bv" || t.Op == "true" || t.Op == "false" }

func Not(a *Term) *Term {
	switch a.Op {
	case "true":
		return TFalse
	case "false":
		return TTrue
	case "not":
		return a.Args[0]
	}
	return mk("not", "", SBool, nil, nil, a)
}

func And(as ...*Term) *Term {
	var out []*Term
	seen := map[int]bool{}
	for _, a := range as {
		if a == nil {
			continue
		}
		switch a.Op {
		case "true":
			continue
		case "false":
			return TFalse
		case "and":
			for _, b := range a.Args {
				if !seen[b.id] {
					seen[b.id] = true
					out = append(out, b)
				}
			}
			continue
		}
		if !seen[a.id] {
			seen[a.id] = true
			out = append(out, a)
		}
	}
	for _, a := range out {
		if a.Op == "not" && seen[a.Args[0].id] {
			return TFalse
		}
	}
	switch len(out) {
	case 0:
		return TTrue
	case 1:
		return out[0]
	}
	return mk("and", "", SBool, nil, nil, out...)
}

func Or(as ...*Term) *Term {
	var out []*Term
	seen := map[int]bool{}
	for _, a := range as {
		switch a.Op {
		case "false":
			continue
		case "true":
			return TTrue
		case "or":
			for _, b := range a.Args {
				if !seen[b.id] {
					seen[b.id] = true
					out = append(out, b)
				}
			}
			continue
		}
		if !seen[a.id] {
			seen[a.id] = true
			out = append(out, a)
		}
	}
	for _, a := range out {
		if a.Op == "not" && seen[a.Args[0].id] {
			return TTrue
		}
	}
	switch len(out) {
	case 0:
		return TFalse
	case 1:
		return out[0]
	}
	return mk("or", "", SBool, nil, nil, out...)
}

func Implies(a, b *Term) *Term {
	if a.Op == "true" {
		return b
	}
	if a.Op == "false" || b.Op == "true" {
		return TTrue
	}
	if b.Op == "false" {
		return Not(a)
	}
	if a == b {
		return TTrue
	}
	return mk("=>", "", SBool, nil, nil, a, b)
}

func Iff(a, b *Term) *Term { return Eq(a, b) }

func Eq(a, b *Term) *Term {
	if a == b {
		return TTrue
	}
	if a.Sort.Name != b.Sort.Name {
		panic(fmt.Sprintf("Eq: sort mismatch %s (%s) vs %s (%s)", a.Sort.Name, a, b.Sort.Name, b))
	}
	if isLit(a) && isLit(b) {
		if a.Op == b.Op && (a.IVal == nil || a.IVal.Cmp(b.IVal) == 0) {
			return TTrue
		}
		return TFalse
	}
	if a.Op == "strlit" && b.Op == "strlit" {
		return Bool(a.Name == b.Name)
	}
	if a.Sort.Kind == SKInt && a.Sort != SInt && definitelyDistinct(a, b) {
		return TFalse
	}
	if a.Sort == SBool {
		if a.Op == "true" {
			return b
		}
		if b.Op == "true" {
			return a
		}
		if a.Op == "false" {
			return Not(b)
		}
		if b.Op == "false" {
			return Not(a)
		}
	}
	if a.id > b.id {
		a, b = b, a
	}
	return mk("=", "", SBool, nil, nil, a, b)
}

func Neq(a, b *Term) *Term { return Not(Eq(a, b)) }

func Ite(c, a, b *Term) *Term {
	if c.Op == "true" {
		return a
	}
	if c.Op == "false" {
		return b
	}
	if a == b {
		return a
	}
	if a.Sort == SBool {
		if a.Op == "true" && b.Op == "false" {
			return c
		}
		if a.Op == "false" && b.Op == "true" {
			return Not(c)
		}
	}
	return mk("ite", "", a.Sort, nil, nil, c, a, b)
}

// StrLit is a string constant of sort S; distinct literals are distinct.
func StrLit(s string) *Term { return mk("strlit", s, SStr, nil, nil) }

// isFreshRef: a symbol introduced for a new allocation.
func isFreshRef(t *Term) bool { return t.Op == "sym" && strings.HasPrefix(t.Name, "ref_") }

func definitelyDistinct(a, b *Term) bool {
	if isLit(a) && isLit(b) {
		return Eq(a, b) == TFalse
	}
	// Memory-model fact: a freshly allocated reference differs from every
	// reference value that existed before the allocation (terms built only
	// from older symbols) and from nil.
	if isFreshRef(a) && !b.fv && b.maxSeq < a.maxSeq {
		return true
	}
	if isFreshRef(b) && !a.fv && a.maxSeq < b.maxSeq {
		return true
	}
	if a.Op == "strlit" && b.Op == "strlit" {
		return a.Name != b.Name
	}
	return false
}

func Select(arr, idx *Term) *Term {
	if arr.Sort.Kind != SKArray {
		panic("Select on non-array " + arr.String())
	}
	if idx.Sort.Name != arr.Sort.K.Name {
		panic(fmt.Sprintf("Select: index sort %s, array %s: %s[%s]", idx.Sort.Name, arr.Sort.Name, arr, idx))
	}
	for arr.Op == "store" {
		if arr.Args[1] == idx {
			return arr.Args[2]
		}
		if definitelyDistinct(arr.Args[1], idx) {
			arr = arr.Args[0]
			continue
		}
		break
	}
	if arr.Op == "constarr" {
		return arr.Args[0]
	}
	if idx.Op == "ite" && idx.size < 400 {
		return Ite(idx.Args[0], Select(arr, idx.Args[1]), Select(arr, idx.Args[2]))
	}
	if arr.Op == "ite" && arr.size < 400 {
		return Ite(arr.Args[0], Select(arr.Args[1], idx), Select(arr.Args[2], idx))
	}
	return mk("select", "", arr.Sort.V, nil, nil, arr, idx)
}

func Store(arr, idx, v *Term) *Term {
	if arr.Sort.Kind != SKArray {
		panic("Store on non-array " + arr.String())
	}
	if idx.Sort.Name != arr.Sort.K.Name || v.Sort.Name != arr.Sort.V.Name {
		panic(fmt.Sprintf("Store: sort mismatch arr %s idx %s val %s", arr.Sort.Name, idx.Sort.Name, v.Sort.Name))
	}
	if arr.Op == "store" && arr.Args[1] == idx {
		arr = arr.Args[0]
	}
	if v.Op == "select" && v.Args[0] == arr && v.Args[1] == idx {
		return arr
	}
	return mk("store", "", arr.Sort, nil, nil, arr, idx, v)
}

// App applies an uninterpreted function. An if-then-else argument is lifted out
// (f(ite(c,a,b)) = ite(c,f(a),f(b))) so that quantifier triggers see the ground instances.
func App(name string, res *Sort, args ...*Term) *Term {
	for i, a := range args {
		if a.Op == "ite" && a.Sort != SBool && a.size < 400 {
			l := append([]*Term{}, args...)
			r := append([]*Term{}, args...)
			l[i], r[i] = a.Args[1], a.Args[2]
			return Ite(a.Args[0], App(name, res, l...), App(name, res, r...))
		}
	}
	return mk("app", name, res, nil, nil, args...)
}

func arith(op string, a, b *Term) *Term {
	if a.Op == "int" && b.Op == "int" {
		r := new(big.Int)
		switch op {
		case "+":
			return IntLitBig(r.Add(a.IVal, b.IVal), a.Sort)
		case "-":
			return IntLitBig(r.Sub(a.IVal, b.IVal), a.Sort)
		case "*":
			return IntLitBig(r.Mul(a.IVal, b.IVal), a.Sort)
		}
	}
	if b.Op == "int" && b.IVal.Sign() == 0 && (op == "+" || op == "-") {
		return a
	}
	if a.Op == "ite" && b.Op == "int" && a.size < 60 {
		return Ite(a.Args[0], arith(op, a.Args[1], b), arith(op, a.Args[2], b))
	}
	if a.Op == "int" && a.IVal.Sign() == 0 && op == "+" {
		return b
	}
	// (x + c1) + c2
	if (op == "+" || op == "-") && b.Op == "int" && a.Op == "+" && a.Args[1].Op == "int" {
		c := new(big.Int)
		if op == "+" {
			c.Add(a.Args[1].IVal, b.IVal)
		} else {
			c.Sub(a.Args[1].IVal, b.IVal)
		}
		return arith("+", a.Args[0], IntLitBig(c, a.Sort))
	}
	return mk(op, "", a.Sort, nil, nil, a, b)
}

func Add(a, b *Term) *Term { return arith("+", a, b) }
func Sub(a, b *Term) *Term { return arith("-", a, b) }
func Mul(a, b *Term) *Term { return arith("*", a, b) }
func Div(a, b *Term) *Term { return mk("div", "", a.Sort, nil, nil, a, b) }
func Mod(a, b *Term) *Term { return mk("mod", "", a.Sort, nil, nil, a, b) }

func cmp(op string, a, b *Term) *Term {
	if a.Op == "int" && b.Op == "int" {
		c := a.IVal.Cmp(b.IVal)
		switch op {
		case "<":
			return Bool(c < 0)
		case "<=":
			return Bool(c <= 0)
		}
	}
	if a == b {
		return Bool(op == "<=")
	}
	return mk(op, "", SBool, nil, nil, a, b)
}
func Lt(a, b *Term) *Term { return cmp("<", a, b) }
func Le(a, b *Term) *Term { return cmp("<=", a, b) }
func Gt(a, b *Term) *Term { return cmp("<", b, a) }
func Ge(a, b *Term) *Term { return cmp("<=", b, a) }

func BVOp(op string, a, b *Term) *Term {
	if a.Op == "bv" && b.Op == "bv" {
		r := new(big.Int)
		switch op {
		case "bvadd":
			return BVLit(r.Add(a.IVal, b.IVal), a.Sort.Bits)
		case "bvsub":
			return BVLit(r.Sub(a.IVal, b.IVal), a.Sort.Bits)
		case "bvmul":
			return BVLit(r.Mul(a.IVal, b.IVal), a.Sort.Bits)
		}
	}
	return mk(op, "", a.Sort, nil, nil, a, b)
}
func BVCmp(op string, a, b *Term) *Term {
	if a.Op == "bv" && b.Op == "bv" {
		c := a.IVal.Cmp(b.IVal)
		switch op {
		case "bvult":
			return Bool(c < 0)
		case "bvule":
			return Bool(c <= 0)
		}
	}
	if a == b {
		return Bool(op == "bvule" || op == "bvsle")
	}
	return mk(op, "", SBool, nil, nil, a, b)
}

func Forall(vars []*Term, body *Term) *Term {
	if len(vars) == 0 || !body.fv {
		return body
	}
	if body.Op == "true" {
		return TTrue
	}
	t := mk("forall", "", SBool, nil, vars, body)
	t.fv = hasFreeVar(t)
	return t
}
func Exists(vars []*Term, body *Term) *Term {
	if len(vars) == 0 || !body.fv {
		return body
	}
	t := mk("exists", "", SBool, nil, vars, body)
	t.fv = hasFreeVar(t)
	return t
}

func hasFreeVar(t *Term) bool {
	bound := map[*Term]bool{}
	var rec func(t *Term) bool
	rec = func(t *Term) bool {
		if !t.fv {
			return false
		}
		if t.Op == "var" {
			return !bound[t]
		}
		if t.Op == "forall" || t.Op == "exists" {
			var added []*Term
			for _, v := range t.Vars {
				if !bound[v] {
					bound[v] = true
					added = append(added, v)
				}
			}
			r := rec(t.Args[0])
			for _, v := range added {
				delete(bound, v)
			}
			return r
		}
		for _, a := range t.Args {
			if rec(a) {
				return true
			}
		}
		return false
	}
	if t.Op == "forall" || t.Op == "exists" {
		for _, v := range t.Vars {
			bound[v] = true
		}
		return rec(t.Args[0])
	}
	return rec(t)
}

// rebuild constructs a term with the same operator over new args, going
// through the simplifying constructors.
func rebuild(t *Term, args []*Term) *Term {
	switch t.Op {
	case "not":
		return Not(args[0])
	case "and":
		return And(args...)
	case "or":
		return Or(args...)
	case "=>":
		return Implies(args[0], args[1])
	case "=":
		return Eq(args[0], args[1])
	case "ite":
		return Ite(args[0], args[1], args[2])
	case "select":
		return Select(args[0], args[1])
	case "store":
		return Store(args[0], args[1], args[2])
	case "+", "-", "*":
		return arith(t.Op, args[0], args[1])
	case "<", "<=":
		return cmp(t.Op, args[0], args[1])
	case "bvadd", "bvsub", "bvmul":
		return BVOp(t.Op, args[0], args[1])
	case "bvult", "bvule", "bvslt", "bvsle":
		return BVCmp(t.Op, args[0], args[1])
	case "forall":
		return Forall(t.Vars, args[0])
	case "exists":
		return Exists(t.Vars, args[0])
	}
	return mk(t.Op, t.Name, t.Sort, t.IVal, t.Vars, args...)
}

// Subst replaces bound variables (or any terms) according to m.
func Subst(t *Term, m map[*Term]*Term) *Term {
	memo := map[*Term]*Term{}
	var rec func(t *Term) *Term
	rec = func(t *Term) *Term {
		if r, ok := m[t]; ok {
			return r
		}
		if len(t.Args) == 0 {
			return t
		}
		if r, ok := memo[t]; ok {
			return r
		}
		changed := false
		args := make([]*Term, len(t.Args))
		for i, a := range t.Args {
			args[i] = rec(a)
			if args[i] != a {
				changed = true
			}
		}
		r := t
		if changed {
			r = rebuild(t, args)
		}
		memo[t] = r
		return r
	}
	return rec(t)
}

func (t *Term) String() string {
	var sb strings.Builder
	printTerm(&sb, t, nil, 0)
	s := sb.String()
	if len(s) > 4000 {
		s = s[:4000] + "..."
	}
	return s
}

func smtSymbol(name string) string {
	ok := true
	for _, c := range name {
		if !(c >= 'a' && c <= 'z' || c >= 'A' && c <= 'Z' || c >= '0' && c <= '9' || strings.ContainsRune("_.!@$%^&*-+<>~/?=", c)) {
			ok = false
			break
		}
	}
	if ok && name != "" && !(name[0] >= '0' && name[0] <= '9') {
		return name
	}
	return "|" + strings.NewReplacer("|", "!", "\\", "!").Replace(name) + "|"
}

func strLitSym(s string) string {
	var sb strings.Builder
	sb.WriteString("str$")
	for i, c := range []byte(s) {
		if i >= 40 {
			fmt.Fprintf(&sb, "$h%x", fnv32(s))
			break
		}
		if c >= 'a' && c <= 'z' || c >= 'A' && c <= 'Z' || c >= '0' && c <= '9' {
			sb.WriteByte(c)
		} else {
			fmt.Fprintf(&sb, "_%02x", c)
		}
	}
	return sb.String()
}

func fnv32(s string) uint32 {
	h := uint32(2166136261)
	for i := 0; i < len(s); i++ {
		h ^= uint32(s[i])
		h *= 16777619
	}
	return h
}

// printTerm prints t; named maps terms to define-fun names.
func printTerm(sb *strings.Builder, t *Term, named map[*Term]string, depth int) {
	if named != nil {
		if n, ok := named[t]; ok {
			sb.WriteString(n)
			return
		}
	}
	switch t.Op {
	case "true", "false":
		sb.WriteString(t.Op)
	case "sym":
		sb.WriteString(smtSymbol(t.Name))
	case "var":
		sb.WriteString(smtSymbol("?" + t.Name))
	case "strlit":
		sb.WriteString(smtSymbol(strLitSym(t.Name)))
	case "int":
		if t.IVal.Sign() < 0 {
			sb.WriteString("(- " + new(big.Int).Neg(t.IVal).String() + ")")
		} else {
			sb.WriteString(t.IVal.String())
		}
	case "bv":
		fmt.Fprintf(sb, "(_ bv%s %d)", t.IVal.String(), t.Sort.Bits)
	case "forall", "exists":
		sb.WriteString("(" + t.Op + " (")
		for _, v := range t.Vars {
			fmt.Fprintf(sb, "(%s %s)", smtSymbol("?"+v.Name), v.Sort.Name)
		}
		sb.WriteString(") ")
		printTerm(sb, t.Args[0], named, depth+1)
		sb.WriteString(")")
	case "app":
		if len(t.Args) == 0 {
			sb.WriteString(smtSymbol(t.Name))
			return
		}
		sb.WriteString("(" + smtSymbol(t.Name))
		for _, a := range t.Args {
			sb.WriteByte(' ')
			printTerm(sb, a, named, depth+1)
		}
		sb.WriteString(")")
	case "constarr":
		fmt.Fprintf(sb, "((as const %s) ", t.Sort.Name)
		printTerm(sb, t.Args[0], named, depth+1)
		sb.WriteString(")")
	default:
		op := t.Op
		if op == "<" && false {
			op = "<"
		}
		sb.WriteString("(" + op)
		for _, a := range t.Args {
			sb.WriteByte(' ')
			printTerm(sb, a, named, depth+1)
		}
		sb.WriteString(")")
	}
}

// collect walks the DAG once.
func walk(t *Term, seen map[*Term]bool, f func(*Term)) {
	if seen[t] {
		return
	}
	seen[t] = true
	for _, a := range t.Args {
		walk(a, seen, f)
	}
	f(t)
}

// Script renders a complete SMT-LIB script for asserts (conjunction) and
// returns it. Shared large ground subterms are hoisted into define-funs.
func Script(asserts []*Term, logic string, wantModel bool) string {
	var sb strings.Builder
	if wantModel {
		sb.WriteString("(set-option :produce-models true)\n")
	}
	if logic != "" {
		sb.WriteString("(set-logic " + logic + ")\n")
	}
	seen := map[*Term]bool{}
	var order []*Term
	refs := map[*Term]int{}
	for _, a := range asserts {
		walk(a, seen, func(t *Term) { order = append(order, t) })
	}
	for _, t := range order {
		for _, a := range t.Args {
			refs[a]++
		}
	}
	// declarations
	usorts := map[string]bool{}
	var sortNames []string
	addSort := func(s *Sort) {}
	addSort = func(s *Sort) {
		switch s.Kind {
		case SKUnint:
			if !usorts[s.Name] {
				usorts[s.Name] = true
				sortNames = append(sortNames, s.Name)
			}
		case SKArray:
			addSort(s.K)
			addSort(s.V)
		}
	}
	type decl struct{ name, text string }
	var decls []decl
	declared := map[string]string{}
	var strlits []string
	for _, t := range order {
		addSort(t.Sort)
		for _, v := range t.Vars {
			addSort(v.Sort)
		}
		switch t.Op {
		case "sym":
			d := fmt.Sprintf("(declare-fun %s () %s)", smtSymbol(t.Name), t.Sort.Name)
			if old, ok := declared[t.Name]; ok && old != d {
				panic("symbol declared with two sorts: " + old + " vs " + d)
			} else if !ok {
				declared[t.Name] = d
				decls = append(decls, decl{t.Name, d})
			}
		case "strlit":
			n := strLitSym(t.Name)
			if _, ok := declared[n]; !ok {
				d := fmt.Sprintf("(declare-fun %s () S)", smtSymbol(n))
				declared[n] = d
				decls = append(decls, decl{n, d})
				strlits = append(strlits, smtSymbol(n))
			}
		case "app":
			var as []string
			for _, a := range t.Args {
				as = append(as, a.Sort.Name)
			}
			d := fmt.Sprintf("(declare-fun %s (%s) %s)", smtSymbol(t.Name), strings.Join(as, " "), t.Sort.Name)
			if old, ok := declared[t.Name]; ok && old != d {
				panic("function declared with two signatures: " + old + " vs " + d)
			} else if !ok {
				declared[t.Name] = d
				decls = append(decls, decl{t.Name, d})
			}
		}
	}
	sort.Strings(sortNames)
	for _, s := range sortNames {
		fmt.Fprintf(&sb, "(declare-sort %s 0)\n", s)
	}
	for _, d := range decls {
		sb.WriteString(d.text + "\n")
	}
	if len(strlits) > 1 {
		sort.Strings(strlits)
		sb.WriteString("(assert (distinct " + strings.Join(strlits, " ") + "))\n")
	}
	// hoist shared ground subterms
	named := map[*Term]string{}
	n := 0
	for _, t := range order {
		if t.fv || len(t.Args) == 0 {
			continue
		}
		if refs[t] > 1 && t.size > 3 || t.size > 40 && t.Sort.Kind == SKArray {
			var b strings.Builder
			printTerm(&b, t, named, 0)
			n++
			name := fmt.Sprintf("d!%d", n)
			fmt.Fprintf(&sb, "(define-fun %s () %s %s)\n", name, t.Sort.Name, b.String())
			named[t] = name
		}
	}
	for _, a := range asserts {
		sb.WriteString("(assert ")
		printTerm(&sb, a, named, 0)
		sb.WriteString(")\n")
	}
	sb.WriteString("(check-sat)\n")
	if wantModel {
		sb.WriteString("(get-model)\n")
	}
	return sb.String()
}
