package main

// Value shapes, symbolic values, addresses and the heap model.

import (
	"fmt"
	"go/types"
	"strings"

	"golang.org/x/tools/go/ssa"
)

const modPath = "github.com/tailscale/setec"

func short(s string) string { return strings.ReplaceAll(s, modPath+"/", "") }

type ShapeKind int

const (
	ShScalar ShapeKind = iota
	ShStruct
	ShSlice
	ShTuple
)

type Shape struct {
	K      ShapeKind
	Sort   *Sort
	Fields []*Shape
	Names  []string
	Ty     types.Type
	Elem   types.Type // slice element type
}

var shapeCache = map[string]*Shape{}

// opaqueNamed lists named types modelled as one scalar.
var opaqueNamed = map[string]*Sort{
	"time.Time":             STime,
	"sync.Mutex":            SBool, // the ghost "held" flag
	"sync.RWMutex":          SBool,
	"net/netip.Addr":        SOpq,
	"net/netip.AddrPort":    SOpq,
	"reflect.Value":         SOpq,
	"sync/atomic.Int64":     SOpq,
	"sync/atomic.Uint64":    SOpq,
	"sync/atomic.Bool":      SOpq,
	"sync/atomic.noCopy":    SOpq,
	"sync.WaitGroup":        SOpq,
	"sync.Once":             SOpq,
	"expvar.Int":            SOpq,
	"expvar.Float":          SOpq,
	"expvar.Map":            SOpq,
	"bytes.Buffer":          SOpq,
	"strings.Builder":       SOpq,
	"encoding/json.Decoder": SOpq,
}

func typeKey(t types.Type) string { return types.TypeString(t, nil) }

func isByte(t types.Type) bool {
	b, ok := t.Underlying().(*types.Basic)
	return ok && (b.Kind() == types.Byte || b.Kind() == types.Uint8)
}

func shapeOf(t types.Type) *Shape {
	t = types.Unalias(t)
	key := typeKey(t)
	if s, ok := shapeCache[key]; ok {
		return s
	}
	s := &Shape{Ty: t}
	shapeCache[key] = s
	if n, ok := t.(*types.Named); ok {
		if so, ok := opaqueNamed[key]; ok {
			s.K, s.Sort = ShScalar, so
			return s
		}
		if st, ok := n.Underlying().(*types.Struct); ok {
			pkg := n.Obj().Pkg()
			if pkg != nil && !strings.HasPrefix(pkg.Path(), modPath) {
				// external struct: opaque unless every field is exported
				for i := 0; i < st.NumFields(); i++ {
					if !st.Field(i).Exported() {
						s.K, s.Sort = ShScalar, SOpq
						return s
					}
				}
			}
		}
	}
	switch u := t.Underlying().(type) {
	case *types.Basic:
		s.K = ShScalar
		switch {
		case u.Info()&types.IsBoolean != 0:
			s.Sort = SBool
		case u.Info()&types.IsString != 0:
			s.Sort = SStr
		case u.Kind() == types.Int || u.Kind() == types.Int64 || u.Kind() == types.UntypedInt || u.Kind() == types.UntypedRune:
			s.Sort = SInt
		case u.Info()&types.IsInteger != 0:
			s.Sort = SBV(basicBits(u))
		case u.Info()&types.IsFloat != 0:
			s.Sort = SF64
		case u.Kind() == types.UnsafePointer:
			s.Sort = SRef
		case u.Kind() == types.UntypedNil:
			s.Sort = SRef
		default:
			s.Sort = SOpq
		}
	case *types.Pointer, *types.Map, *types.Chan, *types.Signature:
		s.K, s.Sort = ShScalar, SRef
	case *types.Interface:
		s.K = ShScalar
		if key == "error" {
			s.Sort = SErr
		} else {
			s.Sort = SIface
		}
	case *types.Slice:
		s.K = ShSlice
		s.Elem = u.Elem()
	case *types.Struct:
		s.K = ShStruct
		for i := 0; i < u.NumFields(); i++ {
			s.Fields = append(s.Fields, shapeOf(u.Field(i).Type()))
			s.Names = append(s.Names, u.Field(i).Name())
		}
	case *types.Tuple:
		s.K = ShTuple
		for i := 0; i < u.Len(); i++ {
			s.Fields = append(s.Fields, shapeOf(u.At(i).Type()))
			s.Names = append(s.Names, fmt.Sprintf("#%d", i))
		}
	case *types.Array:
		// arrays are only supported behind pointers (varargs); as values they
		// are modelled as an opaque scalar
		s.K, s.Sort = ShScalar, SOpq
	case *types.TypeParam:
		s.K, s.Sort = ShScalar, SOpq
	default:
		s.K, s.Sort = ShScalar, SOpq
	}
	return s
}

func basicBits(b *types.Basic) int {
	switch b.Kind() {
	case types.Int8, types.Uint8:
		return 8
	case types.Int16, types.Uint16:
		return 16
	case types.Int32, types.Uint32:
		return 32
	}
	return 64
}

func isSigned(t types.Type) bool {
	b, ok := t.Underlying().(*types.Basic)
	return ok && b.Info()&types.IsInteger != 0 && b.Info()&types.IsUnsigned == 0
}

type ValKind int

const (
	VScalar ValKind = iota
	VStruct
	VSlice
	VTuple
	VAddr
	VRange
)

type closureInfo struct {
	fn    *ssa.Function
	binds []*Val
}

type Val struct {
	K    ValKind
	T    *Term
	Fs   []*Val
	Ref  *Term
	Len  *Term
	A    *Addr
	Ty   types.Type
	Clo  *closureInfo
	Rng  *rangeState
	Elem types.Type
	// Box is the concrete value inside an interface value when statically known.
	Box   *Val
	BoxTy types.Type
}

type rangeState struct {
	mapVal  *Val
	mapTy   *types.Map
	visited *Term // Array K Bool
	instr   *ssa.Range
}

func scalar(t *Term, ty types.Type) *Val { return &Val{K: VScalar, T: t, Ty: ty} }

func (v *Val) String() string {
	switch v.K {
	case VScalar:
		return v.T.String()
	case VStruct, VTuple:
		var p []string
		for _, f := range v.Fs {
			p = append(p, f.String())
		}
		return "{" + strings.Join(p, ", ") + "}"
	case VSlice:
		return "slice(" + v.Ref.String() + "," + v.Len.String() + ")"
	case VAddr:
		return "&" + v.A.String()
	}
	return "?"
}

func zeroTerm(s *Sort) *Term {
	switch s.Kind {
	case SKBool:
		return TFalse
	case SKInt:
		if s == STime {
			return Sym("zeroTime", STime)
		}
		return IntLit(0, s)
	case SKBV:
		return BVLit64(0, s.Bits)
	case SKUnint:
		switch s {
		case SStr:
			return StrLit("")
		}
		return Sym("zero$"+s.Name, s)
	}
	panic("zeroTerm " + s.Name)
}

func zeroVal(t types.Type) *Val {
	sh := shapeOf(t)
	switch sh.K {
	case ShScalar:
		return scalar(zeroTerm(sh.Sort), t)
	case ShSlice:
		return &Val{K: VSlice, Ref: IntLit(0, SRef), Len: IntLit(0, SInt), Ty: t, Elem: sh.Elem}
	case ShStruct, ShTuple:
		v := &Val{K: VStruct, Ty: t}
		if sh.K == ShTuple {
			v.K = VTuple
		}
		for _, f := range sh.Fields {
			v.Fs = append(v.Fs, zeroVal(f.Ty))
		}
		return v
	}
	panic("zeroVal")
}

func freshVal(prefix string, t types.Type) *Val {
	sh := shapeOf(t)
	switch sh.K {
	case ShScalar:
		return scalar(Fresh(prefix, sh.Sort), t)
	case ShSlice:
		return &Val{K: VSlice, Ref: Fresh(prefix+".ref", SRef), Len: Fresh(prefix+".len", SInt), Ty: t, Elem: sh.Elem}
	case ShStruct, ShTuple:
		v := &Val{K: VStruct, Ty: t}
		if sh.K == ShTuple {
			v.K = VTuple
		}
		for i, f := range sh.Fields {
			v.Fs = append(v.Fs, freshVal(prefix+"."+sh.Names[i], f.Ty))
		}
		return v
	}
	panic("freshVal")
}

// symVal builds a value from deterministic symbol names (function inputs).
func symVal(name string, t types.Type) *Val {
	sh := shapeOf(t)
	switch sh.K {
	case ShScalar:
		return scalar(Sym(name, sh.Sort), t)
	case ShSlice:
		return &Val{K: VSlice, Ref: Sym(name+".ref", SRef), Len: Sym(name+".len", SInt), Ty: t, Elem: sh.Elem}
	case ShStruct, ShTuple:
		v := &Val{K: VStruct, Ty: t}
		for i, f := range sh.Fields {
			v.Fs = append(v.Fs, symVal(name+"."+sh.Names[i], f.Ty))
		}
		return v
	}
	panic("symVal")
}

// leaves flattens a value into scalar terms in shape order.
func (v *Val) leaves() []*Term {
	switch v.K {
	case VScalar:
		return []*Term{v.T}
	case VSlice:
		return []*Term{v.Ref, v.Len}
	case VStruct, VTuple:
		var out []*Term
		for _, f := range v.Fs {
			out = append(out, f.leaves()...)
		}
		return out
	case VAddr:
		// an interior pointer used as a value: an abstract, injective name for the
		// location (reads through it are not connected back to the field)
		args := []*Term{v.A.Obj}
		if v.A.Obj == nil {
			args = nil
		}
		if v.A.Idx != nil {
			args = append(args, v.A.Idx)
		}
		return []*Term{App("fieldaddr$"+sanitizeTag(arrName(v.A, v.A.Path)), SRef, args...)}
	}
	panic("leaves of " + v.String())
}

type leafInfo struct {
	path string
	sort *Sort
}

func shapeLeaves(sh *Shape, prefix string) []leafInfo {
	switch sh.K {
	case ShScalar:
		return []leafInfo{{prefix, sh.Sort}}
	case ShSlice:
		return []leafInfo{{prefix + "#ref", SRef}, {prefix + "#len", SInt}}
	default:
		var out []leafInfo
		for i, f := range sh.Fields {
			out = append(out, shapeLeaves(f, prefix+"."+sh.Names[i])...)
		}
		return out
	}
}

// rebuildVal builds a Val of type t from leaf terms.
func rebuildVal(t types.Type, ls []*Term) (*Val, []*Term) {
	sh := shapeOf(t)
	switch sh.K {
	case ShScalar:
		return scalar(ls[0], t), ls[1:]
	case ShSlice:
		return &Val{K: VSlice, Ref: ls[0], Len: ls[1], Ty: t, Elem: sh.Elem}, ls[2:]
	default:
		v := &Val{K: VStruct, Ty: t}
		if sh.K == ShTuple {
			v.K = VTuple
		}
		for _, f := range sh.Fields {
			var fv *Val
			fv, ls = rebuildVal(f.Ty, ls)
			v.Fs = append(v.Fs, fv)
		}
		return v, ls
	}
}

func valEq(a, b *Val) *Term {
	la, lb := a.leaves(), b.leaves()
	if len(la) != len(lb) {
		panic(fmt.Sprintf("valEq: shape mismatch %s vs %s", a, b))
	}
	var cs []*Term
	for i := range la {
		cs = append(cs, Eq(la[i], coerce(lb[i], la[i].Sort)))
	}
	return And(cs...)
}

// coerce re-sorts integer-printed terms between classes (ref/err/iface/int).
func coerce(t *Term, s *Sort) *Term {
	if t.Sort == s {
		return t
	}
	if t.Sort.Name == s.Name {
		if t.Op == "int" {
			return IntLitBig(t.IVal, s)
		}
		return t // same SMT sort, class differs: fine for printing
	}
	if t.Op == "int" && s.Kind == SKBV {
		return BVLit(t.IVal, s.Bits)
	}
	panic(fmt.Sprintf("coerce: %s : %s to %s", t, t.Sort.Name, s.Name))
}

// ---------------------------------------------------------------- addresses

type AddrKind int

const (
	AObj    AddrKind = iota // field path inside object of type Root at ref Obj
	AElem                   // element Idx of backing store Obj with element type Root, then field path
	AGlobal                 // package-level variable
)

type Addr struct {
	Kind AddrKind
	Root types.Type // type of the root object / element / global
	Obj  *Term
	Idx  *Term
	Path string // field path inside the root ("" = whole)
	Ty   types.Type
	Glob string
}

func (a *Addr) String() string {
	switch a.Kind {
	case AObj:
		return fmt.Sprintf("obj(%s@%s)%s", short(typeKey(a.Root)), a.Obj, a.Path)
	case AElem:
		return fmt.Sprintf("elem(%s@%s[%s])%s", short(typeKey(a.Root)), a.Obj, a.Idx, a.Path)
	}
	return "global(" + a.Glob + ")" + a.Path
}

func (a *Addr) field(name string, ty types.Type) *Addr {
	b := *a
	b.Path = a.Path + "." + name
	b.Ty = ty
	return &b
}

func arrName(a *Addr, leafPath string) string {
	switch a.Kind {
	case AObj:
		return "F|" + short(typeKey(a.Root)) + "|" + leafPath
	case AElem:
		return "E|" + short(typeKey(a.Root)) + "|" + leafPath
	}
	return "G|" + short(a.Glob) + "|" + leafPath
}

const bytesArr = "Hbytes"

// heap access --------------------------------------------------------------

type pcNode struct {
	t    *Term
	next *pcNode
	n    int
}

func (p *pcNode) list() []*Term {
	var out []*Term
	for q := p; q != nil; q = q.next {
		out = append(out, q.t)
	}
	// reverse to chronological order
	for i, j := 0, len(out)-1; i < j; i, j = i+1, j-1 {
		out[i], out[j] = out[j], out[i]
	}
	return out
}

type deferred struct {
	call *ssa.CallCommon
	args []*Val
	fnv  *Val
	site ssa.Instruction
}

type namedVal struct {
	v      *Val
	isAddr bool
}

type Frame struct {
	fn      *ssa.Function
	vals    map[ssa.Value]*Val
	defers  []*deferred
	names   map[string]namedVal
	binds   []*Val // closure bindings (FreeVars)
	results []*Val
	depth   int
}

func (f *Frame) clone() *Frame {
	n := &Frame{fn: f.fn, vals: make(map[ssa.Value]*Val, len(f.vals)), names: make(map[string]namedVal, len(f.names)), binds: f.binds, depth: f.depth}
	for k, v := range f.vals {
		n.vals[k] = v
	}
	for k, v := range f.names {
		n.names[k] = v
	}
	n.defers = append([]*deferred{}, f.defers...)
	return n
}

type State struct {
	heap   map[string]*Term
	pc     *pcNode
	alloc  *Term
	frames []*Frame
	path   string
	notes  []string
}

func (s *State) clone() *State {
	n := &State{heap: make(map[string]*Term, len(s.heap)), pc: s.pc, alloc: s.alloc, path: s.path}
	for k, v := range s.heap {
		n.heap[k] = v
	}
	for _, f := range s.frames {
		n.frames = append(n.frames, f.clone())
	}
	n.notes = append([]string{}, s.notes...)
	return n
}

func (s *State) top() *Frame { return s.frames[len(s.frames)-1] }

func (s *State) assume(t *Term) {
	if t == nil || t.Op == "true" {
		return
	}
	n := 1
	if s.pc != nil {
		n = s.pc.n + 1
	}
	s.pc = &pcNode{t: t, next: s.pc, n: n}
}

var arrSorts = map[string]*Sort{}

func (s *State) get(name string, srt *Sort) *Term {
	if old, ok := arrSorts[name]; ok {
		if old.Name != srt.Name {
			panic(fmt.Sprintf("heap array %s used with sorts %s and %s", name, old.Name, srt.Name))
		}
	} else {
		arrSorts[name] = srt
	}
	var r *Term
	if t, ok := s.heap[name]; ok {
		r = t
	} else {
		r = Sym(name+"@0", srt)
	}
	if readHook != nil {
		readHook[name+"#"+fmt.Sprint(r.id)] = r
	}
	return r
}

// readHook, when set, records the heap arrays read while evaluating an opaque
// spec function.
var readHook map[string]*Term

func (ex *Exec) set(s *State, name string, t *Term) {
	s.heap[name] = t
	if ex.written != nil {
		ex.written[name] = t.Sort
	}
	if ex.writtenOuter != nil {
		ex.writtenOuter[name] = t.Sort
	}
}

// setAt is set for a write into the object ref: writes to objects allocated
// during the current collect run are not part of the caller-visible write set.
func (ex *Exec) setAt(s *State, name string, t *Term, ref *Term) {
	s.heap[name] = t
	if _, ok := arrSorts[name]; !ok {
		arrSorts[name] = t.Sort
	}
	if ex.written != nil && !(ref != nil && ex.freshRefs[ref]) {
		ex.written[name] = t.Sort
	}
	if ex.writtenOuter != nil && !(ref != nil && (ex.freshRefs[ref] || ex.parentFresh[ref])) {
		ex.writtenOuter[name] = t.Sort
	}
}

func (ex *Exec) havocArr(s *State, name string) {
	srt, ok := arrSorts[name]
	if !ok {
		return
	}
	ex.set(s, name, Fresh(name, srt))
}

// leafTerm reads one scalar leaf at address a.
func (ex *Exec) leafGet(s *State, a *Addr, lp string, srt *Sort) *Term {
	name := arrName(a, a.Path+lp)
	switch a.Kind {
	case AObj:
		return Select(s.get(name, SArr(SRef, srt)), a.Obj)
	case AElem:
		return Select(Select(s.get(name, SArr(SRef, SArr(SInt, srt))), a.Obj), a.Idx)
	default:
		return s.get(name, srt)
	}
}

func (ex *Exec) leafSet(s *State, a *Addr, lp string, v *Term) {
	name := arrName(a, a.Path+lp)
	srt := v.Sort
	switch a.Kind {
	case AObj:
		ex.setAt(s, name, Store(s.get(name, SArr(SRef, srt)), a.Obj, v), a.Obj)
	case AElem:
		arr := s.get(name, SArr(SRef, SArr(SInt, srt)))
		ex.setAt(s, name, Store(arr, a.Obj, Store(Select(arr, a.Obj), a.Idx, v)), a.Obj)
	default:
		ex.set(s, name, v)
	}
}

func (ex *Exec) load(s *State, a *Addr) *Val {
	sh := shapeOf(a.Ty)
	ls := shapeLeaves(sh, "")
	ts := make([]*Term, len(ls))
	for i, l := range ls {
		ts[i] = ex.leafGet(s, a, l.path, l.sort)
	}
	v, _ := rebuildVal(a.Ty, ts)
	return v
}

func (ex *Exec) store(s *State, a *Addr, v *Val) {
	sh := shapeOf(a.Ty)
	ls := shapeLeaves(sh, "")
	ts := v.leaves()
	if len(ts) != len(ls) {
		panic(fmt.Sprintf("store: shape mismatch storing %s into %s (%s)", v, a, typeKey(a.Ty)))
	}
	for i, l := range ls {
		ex.leafSet(s, a, l.path, coerce(ts[i], l.sort))
	}
}

// havocAt gives fresh contents to the location a.
func (ex *Exec) havocAt(s *State, a *Addr) {
	ex.store(s, a, freshVal("hv", a.Ty))
}

// maps ---------------------------------------------------------------------

func mapNames(m *types.Map) (dom string, val string) {
	base := short(typeKey(m.Key())) + "|" + short(typeKey(m.Elem()))
	return "Md|" + base, "Mv|" + base
}

func keySort(m *types.Map) *Sort {
	sh := shapeOf(m.Key())
	if sh.K != ShScalar {
		panic("unsupported map key type " + typeKey(m.Key()))
	}
	return sh.Sort
}

func (ex *Exec) mapHas(s *State, m *types.Map, ref, key *Term) *Term {
	dom, _ := mapNames(m)
	ks := keySort(m)
	return Select(Select(s.get(dom, SArr(SRef, SArr(ks, SBool))), ref), coerce(key, ks))
}

func (ex *Exec) mapDom(s *State, m *types.Map, ref *Term) *Term {
	dom, _ := mapNames(m)
	return Select(s.get(dom, SArr(SRef, SArr(keySort(m), SBool))), ref)
}

func (ex *Exec) mapLenName(m *types.Map) string {
	dom, _ := mapNames(m)
	return "Ml|" + strings.TrimPrefix(dom, "Md|")
}

func (ex *Exec) mapLen(s *State, m *types.Map, ref *Term) *Term {
	return Select(s.get(ex.mapLenName(m), SArr(SRef, SInt)), ref)
}

func (ex *Exec) mapGet(s *State, m *types.Map, ref, key *Term) *Val {
	_, vn := mapNames(m)
	ks := keySort(m)
	key = coerce(key, ks)
	ls := shapeLeaves(shapeOf(m.Elem()), "")
	ts := make([]*Term, len(ls))
	for i, l := range ls {
		ts[i] = Select(Select(s.get(vn+"|"+l.path, SArr(SRef, SArr(ks, l.sort))), ref), key)
	}
	v, _ := rebuildVal(m.Elem(), ts)
	return v
}

func (ex *Exec) mapSetRaw(s *State, m *types.Map, ref, key *Term, has *Term, v *Val) {
	dom, vn := mapNames(m)
	ks := keySort(m)
	key = coerce(key, ks)
	d := s.get(dom, SArr(SRef, SArr(ks, SBool)))
	ex.setAt(s, dom, Store(d, ref, Store(Select(d, ref), key, has)), ref)
	ls := shapeLeaves(shapeOf(m.Elem()), "")
	ts := v.leaves()
	for i, l := range ls {
		n := vn + "|" + l.path
		arr := s.get(n, SArr(SRef, SArr(ks, l.sort)))
		ex.setAt(s, n, Store(arr, ref, Store(Select(arr, ref), key, coerce(ts[i], l.sort))), ref)
	}
}

func (ex *Exec) mapUpdate(s *State, m *types.Map, ref, key *Term, v *Val) {
	had := ex.mapHas(s, m, ref, key)
	ln := ex.mapLenName(m)
	la := s.get(ln, SArr(SRef, SInt))
	ex.setAt(s, ln, Store(la, ref, Ite(had, Select(la, ref), Add(Select(la, ref), IntLit(1, SInt)))), ref)
	ex.mapSetRaw(s, m, ref, key, TTrue, v)
}

func (ex *Exec) mapDelete(s *State, m *types.Map, ref, key *Term) {
	had := ex.mapHas(s, m, ref, key)
	ln := ex.mapLenName(m)
	la := s.get(ln, SArr(SRef, SInt))
	ex.setAt(s, ln, Store(la, ref, Ite(had, Sub(Select(la, ref), IntLit(1, SInt)), Select(la, ref))), ref)
	ex.mapSetRaw(s, m, ref, key, TFalse, zeroVal(m.Elem()))
}

// havocMap gives the map at ref fresh contents.
func (ex *Exec) havocMap(s *State, m *types.Map, ref *Term) {
	dom, vn := mapNames(m)
	ks := keySort(m)
	d := s.get(dom, SArr(SRef, SArr(ks, SBool)))
	ex.setAt(s, dom, Store(d, ref, Fresh("hvdom", SArr(ks, SBool))), ref)
	for _, l := range shapeLeaves(shapeOf(m.Elem()), "") {
		n := vn + "|" + l.path
		arr := s.get(n, SArr(SRef, SArr(ks, l.sort)))
		ex.setAt(s, n, Store(arr, ref, Fresh("hvval", SArr(ks, l.sort))), ref)
	}
	ln := ex.mapLenName(m)
	la := s.get(ln, SArr(SRef, SInt))
	ex.setAt(s, ln, Store(la, ref, Fresh("hvlen", SInt)), ref)
}

// bytes ----------------------------------------------------------------------

func (ex *Exec) bytesOf(s *State, ref *Term) *Term {
	return Select(s.get(bytesArr, SArr(SRef, SStr)), ref)
}

func (ex *Exec) setBytes(s *State, ref, content *Term) {
	ex.setAt(s, bytesArr, Store(s.get(bytesArr, SArr(SRef, SStr)), ref, content), ref)
}

func slen(t *Term) *Term {
	if t.Op == "strlit" {
		return IntLit(int64(len(t.Name)), SInt)
	}
	return App("slen", SInt, t)
}

// allocation -----------------------------------------------------------------

func (ex *Exec) newRef(s *State, hint string) *Term {
	r := Fresh("ref_"+hint, SRef)
	if ex.freshRefs != nil {
		ex.freshRefs[r] = true
	}
	// r is at or above the allocation frontier (compared, never equated: the
	// term simplifier treats a fresh reference as distinct from all older terms)
	s.assume(Ge(r, s.alloc))
	s.assume(Gt(r, IntLit(0, SRef)))
	s.alloc = Add(r, IntLit(1, SRef))
	return r
}
