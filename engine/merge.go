package main

// State merging at the join block of an if-diamond (immediate post-dominator),
// so that independent branches do not multiply paths. Sound: the merged state
// says "one of the incoming states holds" (fresh guard literal per state) and
// every value is the corresponding if-then-else.

import (
	"fmt"
	"sort"

	"golang.org/x/tools/go/ssa"
)

type reach struct {
	st   *State
	pred *ssa.BasicBlock
}

// ipdoms computes immediate post-dominators (nil = function exit).
func (eng *Engine) ipdoms(fn *ssa.Function) map[*ssa.BasicBlock]*ssa.BasicBlock {
	if m, ok := eng.ipdomCache[fn]; ok {
		return m
	}
	n := len(fn.Blocks)
	// pdom[b] = set of blocks that post-dominate b (including b); exit is index n
	full := make([]bool, n+1)
	for i := range full {
		full[i] = true
	}
	pdom := make([][]bool, n+1)
	for i := 0; i <= n; i++ {
		pdom[i] = append([]bool{}, full...)
	}
	pdom[n] = make([]bool, n+1)
	pdom[n][n] = true
	succs := func(b *ssa.BasicBlock) []int {
		if len(b.Succs) == 0 {
			return []int{n}
		}
		var out []int
		for _, s := range b.Succs {
			out = append(out, s.Index)
		}
		return out
	}
	for changed := true; changed; {
		changed = false
		for i := n - 1; i >= 0; i-- {
			b := fn.Blocks[i]
			nw := append([]bool{}, full...)
			for _, s := range succs(b) {
				for k := range nw {
					nw[k] = nw[k] && pdom[s][k]
				}
			}
			nw[i] = true
			for k := range nw {
				if nw[k] != pdom[i][k] {
					changed = true
				}
			}
			pdom[i] = nw
		}
	}
	res := map[*ssa.BasicBlock]*ssa.BasicBlock{}
	for i, b := range fn.Blocks {
		// the immediate post-dominator is the strict post-dominator that is post-dominated by all the others
		var best *ssa.BasicBlock
		bestCount := -1
		for k := 0; k < n; k++ {
			if k == i || !pdom[i][k] {
				continue
			}
			cnt := 0
			for j := 0; j <= n; j++ {
				if pdom[k][j] {
					cnt++
				}
			}
			// closest = the one with the largest post-dominator set
			if cnt > bestCount {
				bestCount = cnt
				best = fn.Blocks[k]
			}
		}
		res[b] = best
	}
	eng.ipdomCache[fn] = res
	return res
}

// mergeStates merges states that all arrived at the same block with identical frame structure.
// It returns nil when the states cannot be merged.
func (ex *Exec) mergeStates(base *pcNode, rs []*State) *State {
	if len(rs) == 1 {
		return rs[0]
	}
	first := rs[0]
	nf := len(first.frames)
	for _, s := range rs {
		if len(s.frames) != nf {
			return nil
		}
		for fi := range s.frames {
			if s.frames[fi].fn != first.frames[fi].fn || len(s.frames[fi].defers) != len(first.frames[fi].defers) {
				return nil
			}
			for di := range s.frames[fi].defers {
				if s.frames[fi].defers[di].site != first.frames[fi].defers[di].site {
					return nil
				}
			}
		}
	}
	guards := make([]*Term, len(rs))
	m := &State{heap: map[string]*Term{}, pc: base, path: first.path + fmt.Sprintf("{%d}", len(rs))}
	// guards: b_i => all facts state i added since the base
	var any []*Term
	for i, s := range rs {
		g := Fresh("branch", SBool)
		guards[i] = g
		var extra []*Term
		for q := s.pc; q != nil && q != base; q = q.next {
			extra = append(extra, q.t)
		}
		// reverse to chronological order
		for a, b := 0, len(extra)-1; a < b; a, b = a+1, b-1 {
			extra[a], extra[b] = extra[b], extra[a]
		}
		// the base must be an ancestor
		ok := base == nil
		for q := s.pc; q != nil; q = q.next {
			if q == base {
				ok = true
			}
		}
		if !ok {
			return nil
		}
		m.assume(Implies(g, And(extra...)))
		any = append(any, g)
	}
	m.assume(Or(any...))
	pick := func(ts []*Term) *Term {
		r := ts[len(ts)-1]
		for i := len(ts) - 2; i >= 0; i-- {
			r = Ite(guards[i], ts[i], r)
		}
		return r
	}
	// heap
	names := map[string]bool{}
	for _, s := range rs {
		for n := range s.heap {
			names[n] = true
		}
	}
	var nl []string
	for n := range names {
		nl = append(nl, n)
	}
	sort.Strings(nl)
	for _, n := range nl {
		srt := arrSorts[n]
		if srt == nil {
			return nil
		}
		ts := make([]*Term, len(rs))
		same := true
		for i, s := range rs {
			ts[i] = s.get(n, srt)
			if ts[i] != ts[0] {
				same = false
			}
		}
		if same {
			m.heap[n] = ts[0]
		} else {
			m.heap[n] = pick(ts)
		}
	}
	// alloc
	{
		ts := make([]*Term, len(rs))
		for i, s := range rs {
			ts[i] = s.alloc
		}
		m.alloc = pick(ts)
	}
	// frames
	mergeVal := func(vs []*Val) *Val {
		v0 := vs[0]
		allSame := true
		for _, v := range vs {
			if v != v0 {
				allSame = false
			}
		}
		if allSame {
			return v0
		}
		for _, v := range vs {
			if v == nil || v.K != v0.K {
				return nil
			}
		}
		switch v0.K {
		case VScalar, VSlice, VStruct, VTuple:
			ls := make([][]*Term, len(vs))
			for i, v := range vs {
				ls[i] = v.leaves()
				if len(ls[i]) != len(ls[0]) {
					return nil
				}
			}
			out := make([]*Term, len(ls[0]))
			for k := range out {
				ts := make([]*Term, len(vs))
				for i := range vs {
					ts[i] = ls[i][k]
					if ts[i].Sort.Name != ls[0][k].Sort.Name {
						return nil
					}
				}
				out[k] = pick(ts)
			}
			if v0.Ty == nil {
				if v0.K == VScalar {
					return &Val{K: VScalar, T: out[0]}
				}
				return nil
			}
			// rebuild with the static shape of the first value
			nv := rebuildLike(v0, out)
			if nv == nil {
				return nil
			}
			// closure/box identity survives only if identical in all states
			nv.Clo, nv.Box, nv.BoxTy = v0.Clo, v0.Box, v0.BoxTy
			for _, v := range vs {
				if v.Clo != v0.Clo {
					nv.Clo = nil
				}
				if v.Box != v0.Box {
					nv.Box, nv.BoxTy = nil, nil
				}
			}
			return nv
		case VAddr:
			for _, v := range vs {
				if v.A.Kind != v0.A.Kind || v.A.Path != v0.A.Path || typeKey(v.A.Root) != typeKey(v0.A.Root) || v.A.Glob != v0.A.Glob {
					return nil
				}
			}
			na := *v0.A
			if v0.A.Obj != nil {
				ts := make([]*Term, len(vs))
				for i, v := range vs {
					ts[i] = v.A.Obj
				}
				na.Obj = pick(ts)
			}
			if v0.A.Idx != nil {
				ts := make([]*Term, len(vs))
				for i, v := range vs {
					if v.A.Idx == nil {
						return nil
					}
					ts[i] = v.A.Idx
				}
				na.Idx = pick(ts)
			}
			return &Val{K: VAddr, A: &na, Ty: v0.Ty}
		case VRange:
			for _, v := range vs {
				if v.Rng.instr != v0.Rng.instr || v.Rng.mapVal != v0.Rng.mapVal {
					return nil
				}
			}
			ts := make([]*Term, len(vs))
			for i, v := range vs {
				ts[i] = v.Rng.visited
			}
			nr := *v0.Rng
			nr.visited = pick(ts)
			return &Val{K: VRange, Rng: &nr}
		}
		return nil
	}
	for fi := range first.frames {
		f0 := first.frames[fi]
		nfm := &Frame{fn: f0.fn, vals: map[ssa.Value]*Val{}, names: map[string]namedVal{}, binds: f0.binds, depth: f0.depth, defers: append([]*deferred{}, f0.defers...)}
		for k := range f0.vals {
			vs := make([]*Val, len(rs))
			okAll := true
			for i, s := range rs {
				v, ok := s.frames[fi].vals[k]
				if !ok {
					okAll = false
					break
				}
				vs[i] = v
			}
			if !okAll {
				continue // defined on some paths only: not live after the join
			}
			mv := mergeVal(vs)
			if mv == nil {
				continue // cannot be merged: treated as undefined after the join (use would be reported)
			}
			nfm.vals[k] = mv
		}
		for k, nv0 := range f0.names {
			vs := make([]*Val, len(rs))
			okAll := true
			for i, s := range rs {
				nv, ok := s.frames[fi].names[k]
				if !ok || nv.isAddr != nv0.isAddr {
					okAll = false
					break
				}
				vs[i] = nv.v
			}
			if !okAll {
				continue
			}
			if mv := mergeVal(vs); mv != nil {
				nfm.names[k] = namedVal{v: mv, isAddr: nv0.isAddr}
			}
		}
		// deferred call arguments
		for di := range nfm.defers {
			d0 := *nfm.defers[di]
			for ai := range d0.args {
				vs := make([]*Val, len(rs))
				for i, s := range rs {
					vs[i] = s.frames[fi].defers[di].args[ai]
				}
				mv := mergeVal(vs)
				if mv == nil {
					return nil
				}
				d0.args = append([]*Val{}, d0.args...)
				d0.args[ai] = mv
			}
			if d0.fnv != nil {
				vs := make([]*Val, len(rs))
				for i, s := range rs {
					vs[i] = s.frames[fi].defers[di].fnv
				}
				if mv := mergeVal(vs); mv != nil {
					d0.fnv = mv
				} else {
					return nil
				}
			}
			nfm.defers[di] = &d0
		}
		m.frames = append(m.frames, nfm)
	}
	seenNote := map[string]bool{}
	for _, s := range rs {
		for _, n := range s.notes {
			if !seenNote[n] {
				seenNote[n] = true
			}
		}
	}
	// a note survives the merge only if every incoming state has it
	for n := range seenNote {
		all := true
		for _, s := range rs {
			has := false
			for _, x := range s.notes {
				if x == n {
					has = true
				}
			}
			if !has {
				all = false
			}
		}
		if all {
			m.notes = append(m.notes, n)
		}
	}
	sort.Strings(m.notes)
	return m
}

// rebuildLike builds a value with the shape of proto from leaf terms.
func rebuildLike(proto *Val, ls []*Term) *Val {
	var rec func(p *Val) *Val
	i := 0
	rec = func(p *Val) *Val {
		switch p.K {
		case VScalar:
			v := *p
			v.T = ls[i]
			i++
			return &v
		case VSlice:
			v := *p
			v.Ref, v.Len = ls[i], ls[i+1]
			i += 2
			return &v
		case VStruct, VTuple:
			v := *p
			v.Fs = nil
			for _, f := range p.Fs {
				nf := rec(f)
				if nf == nil {
					return nil
				}
				v.Fs = append(v.Fs, nf)
			}
			return &v
		case VAddr:
			i++
			return p
		}
		return nil
	}
	return rec(proto)
}
