package main

// Counterexample replay: when an obligation fails, a driver for the function's
// package is run against the real code (in-package test injected with
// `go test -overlay`, nothing is written to the repository).

import (
	"context"
	"fmt"
	"encoding/json"
	"os"
	"os/exec"
	"path/filepath"
	"strings"
	"time"
)

var replayDrivers = map[string]struct {
	pkg  string
	file string
	run  string
}{
	"db":           {"db", "db/zz_verif_replay_test.go", "TestVerifReplayDB"},
	"acl":          {"acl", "acl/zz_verif_replay_test.go", "TestVerifReplayACL"},
	"client/setec": {"client/setec", "client/setec/zz_verif_replay_test.go", "TestVerifReplaySetec"},
	"server":       {"server", "server/zz_verif_replay_test.go", "TestVerifReplayServer"},
	"audit":        {"audit", "audit/zz_verif_replay_test.go", "TestVerifReplayAudit"},
	"cmd/setec":    {"cmd/setec", "cmd/setec/zz_verif_replay_test.go", "TestVerifReplayCLI"},
}

// at most this many driver runs per check (each is a `go test` of up to a minute)
const maxReplays = 4

var replaysDone = 0

var replayCache = map[string]replayResult{}

func tryReplay(verif, repo, prop string, o *Obligation, all []*Obligation) replayResult {
	if r, ok := replayCache[o.Func]; ok {
		return r
	}
	if replaysDone >= maxReplays {
		return replayResult{Note: "replay budget of this run used up by earlier obligations (see their replay files)"}
	}
	replaysDone++
	r := tryReplay1(verif, repo, prop, o, all)
	replayCache[o.Func] = r
	return r
}

func tryReplay1(verif, repo, prop string, o *Obligation, all []*Obligation) replayResult {
	fn := strings.TrimLeft(o.Func, "(*")
	pkg := fn
	if i := strings.Index(fn, "."); i >= 0 {
		pkg = fn[:i]
	}
	return runDriver(verif, repo, pkg, o.Func, false)
}

// runDriver runs the driver of one package against the tree at repo.
func runDriver(verif, repo, pkg, focus string, deep bool) replayResult {
	d, ok := replayDrivers[pkg]
	if !ok {
		return replayResult{Note: "no replay driver for package " + pkg + "; the solver output and model values are in failing_paths"}
	}
	src := filepath.Join(replayRoot(verif), "replay", d.file)
	if _, err := os.Stat(src); err != nil {
		return replayResult{Note: "replay driver missing: " + src}
	}
	tmp, err := os.MkdirTemp("", "govc-replay-")
	if err != nil {
		return replayResult{Note: err.Error()}
	}
	defer os.RemoveAll(tmp)
	repl := map[string]string{filepath.Join(repo, d.file): src}
	var extraEnv []string
	if pkg == "server" {
		// the timing scenarios of the backup task run on virtual time (testing/synctest, an experiment in go1.24)
		comp := "server/zz_verif_replay_timing_test.go"
		if _, err := os.Stat(filepath.Join(replayRoot(verif), "replay", comp)); err == nil {
			repl[filepath.Join(repo, comp)] = filepath.Join(replayRoot(verif), "replay", comp)
			extraEnv = append(extraEnv, "GOEXPERIMENT=synctest")
		}
	}
	ov := map[string]any{"Replace": repl}
	b, _ := json.Marshal(ov)
	ovf := filepath.Join(tmp, "overlay.json")
	os.WriteFile(ovf, b, 0644)
	limit := 120
	if deep {
		limit = 600
	}
	ctx, cancel := context.WithTimeout(context.Background(), time.Duration(limit+30)*time.Second)
	defer cancel()
	args := []string{"test", "-overlay", ovf, "-vet=off", "-count=1", "-timeout", fmt.Sprintf("%ds", limit), "-run", "^" + d.run + "$", "./" + d.pkg}
	// deep (thorough tier): the drivers that take VERIF_REPLAY_SEED are run with several seeds
	seeds := []string{""}
	if deep && pkg != "db" && pkg != "acl" {
		seeds = []string{"1", "2", "3", "4", "5"}
	}
	var res replayResult
	// (err declared above)
	for _, seed := range seeds {
		cmd := exec.CommandContext(ctx, "go", args...)
		cmd.Dir = repo
		cmd.Env = append(os.Environ(), "GOFLAGS=-mod=mod", "GOPROXY=off", "VERIF_REPLAY_FOCUS="+focus)
		if deep {
			cmd.Env = append(cmd.Env, "VERIF_REPLAY_DEEP=1")
		}
		if seed != "" {
			cmd.Env = append(cmd.Env, "VERIF_REPLAY_SEED="+seed)
		}
		cmd.Env = append(cmd.Env, extraEnv...)
		var out []byte
		out, err = cmd.CombinedOutput()
		res = replayResult{Attempted: true, Driver: d.file, Command: "cd " + repo + " && VERIF_REPLAY_FOCUS='" + focus + "' go " + strings.Join(args, " ")}
		if len(seeds) > 1 {
			res.Command += "   (seeds " + strings.Join(seeds, ",") + ")"
		}
		s := string(out)
		if i := strings.Index(s, "REPLAY-COUNTEREXAMPLE"); i >= 0 {
			res.Reproduced = true
			s = s[i:]
		}
		if len(s) > 5000 {
			s = s[:5000] + "...(truncated)"
		}
		res.Output = s
		if res.Reproduced || err != nil {
			break
		}
	}
	if !res.Reproduced {
		if err == nil {
			res.Note = "the driver found no failing input within its bounds"
		} else {
			res.Note = "the driver did not complete: " + err.Error()
		}
	}
	return res
}

// replayRoot: drivers live next to the engine (VERIF_HOME) even when results go elsewhere.
func replayRoot(verif string) string {
	if h := os.Getenv("VERIF_HOME"); h != "" {
		return h
	}
	return verif
}
