package main

// Native stubs: assumed contracts of external functions that need type- or
// format-directed handling. Each use is recorded as an assumption.

import (
	"fmt"
	"go/types"
	"sort"
	"strings"
)

var natives = map[string]func(c *callCtx) []cont{}

func init() {
	natives["fmt.Sprintf"] = natSprintf
	natives["fmt.Errorf"] = natErrorf
	natives["errors.New"] = natErrorsNew
	natives["errors.Is"] = natErrorsIs
	natives["errors.Join"] = natErrorsJoin
	natives["tailscale.com/util/multierr.New"] = natMultierrNew
	natives["(*sync.Mutex).Lock"] = natLock
	natives["(*sync.Mutex).Unlock"] = natUnlock
	natives["maps.Keys"] = natOpaqueSeq
	natives["slices.Sorted"] = natSlicesSorted
	natives["slices.Sort"] = natSlicesSort
	natives["slices.SortFunc"] = natSlicesSortFunc
	natives["(*golang.org/x/sync/singleflight.Group).Do"] = natSingleDo
	natives["log.Printf"] = natNoop
	natives["log.Print"] = natNoop
	natives["log.Println"] = natNoop
}

func natNoop(c *callCtx) []cont {
	c.ex.note("A-log: logging calls have no effect on modelled state")
	return c.ret(c.ex.freshResult(c))
}

// varargs reads the elements of a variadic []any / []error argument with a
// literal length.
func (c *callCtx) varargs(v *Val) ([]*Val, bool) {
	if v.K != VSlice {
		return nil, false
	}
	if v.Len.Op != "int" || !v.Len.IVal.IsInt64() || v.Len.IVal.Int64() > 16 {
		return nil, false
	}
	n := int(v.Len.IVal.Int64())
	out := make([]*Val, n)
	for i := 0; i < n; i++ {
		out[i] = c.ex.load(c.st, &Addr{Kind: AElem, Root: v.Elem, Obj: v.Ref, Idx: IntLit(int64(i), SInt), Ty: v.Elem})
	}
	return out, true
}

// content returns the scalar terms that determine the formatted form of an
// interface value, using box information when available.
func (c *callCtx) content(v *Val) []*Term {
	if b, ok := c.ex.boxes[v.T]; ok {
		bv := b.val
		if bv.K == VSlice && isByte(bv.Elem) {
			return []*Term{Ite(Eq(bv.Len, IntLit(0, SInt)), StrLit(""), c.ex.bytesOf(c.st, bv.Ref))}
		}
		return bv.leaves()
	}
	return []*Term{v.T}
}

func fmtName(prefix, format string, args []*Term) string {
	var sb strings.Builder
	sb.WriteString(prefix + "$" + fmt.Sprintf("%08x", fnv32(format)))
	for _, a := range args {
		sb.WriteString("$" + sanitizeTag(a.Sort.Name))
	}
	return sb.String()
}

func natSprintf(c *callCtx) []cont {
	c.ex.note("A-fmt: fmt.Sprintf is a deterministic function of its format and argument contents")
	f := c.args[0].T
	elems, ok := c.varargs(c.args[1])
	if f.Op != "strlit" || !ok {
		return c.ret(freshVal("sprintf", types.Typ[types.String]))
	}
	var ts []*Term
	for _, e := range elems {
		ts = append(ts, c.content(e)...)
	}
	c.ex.eng.formats[fmt.Sprintf("%08x", fnv32(f.Name))] = f.Name
	return c.ret(scalar(App(fmtName("sprintf", f.Name, ts), SStr, ts...), types.Typ[types.String]))
}

func (ex *Exec) newErr(st *State, hint string) *Term {
	r := ex.newRef(st, hint)
	return recast(r, SErr)
}

func errIsT(e, t *Term) *Term { return App("errIs", SBool, recast(e, SErr), recast(t, SErr)) }

func natErrorsNew(c *callCtx) []cont {
	c.ex.note("A-err: errors.New/fmt.Errorf/errors.Is/errors.Join/multierr.New compose errIs as documented")
	e := mkFreshErr(c, "errnew")
	t := BVar("t", SErr)
	c.st.assume(Forall([]*Term{t}, Eq(errIsT(e, t), Eq(t, e))))
	return c.ret(scalar(e, c.resultType()))
}

func mkFreshErr(c *callCtx, hint string) *Term {
	e := Fresh(hint, SErr)
	c.st.assume(Ge(e, recast(c.st.alloc, SErr)))
	c.st.alloc = Add(recast(e, SRef), IntLit(1, SRef))
	c.st.assume(Gt(e, IntLit(0, SErr)))
	return e
}

func natErrorf(c *callCtx) []cont {
	c.ex.note("A-err: errors.New/fmt.Errorf/errors.Is/errors.Join/multierr.New compose errIs as documented")
	f := c.args[0].T
	elems, ok := c.varargs(c.args[1])
	e := mkFreshErr(c, "errorf")
	t := BVar("t", SErr)
	if f.Op != "strlit" || !ok {
		// unknown wrapping: only non-nil is known
		return c.ret(scalar(e, c.resultType()))
	}
	// find %w operands
	var wrapped []*Term
	ai := 0
	s := f.Name
	for i := 0; i < len(s); i++ {
		if s[i] != '%' {
			continue
		}
		i++
		for i < len(s) && strings.ContainsRune("+-# 0123456789.", rune(s[i])) {
			i++
		}
		if i >= len(s) {
			break
		}
		if s[i] == '%' {
			continue
		}
		if s[i] == 'w' && ai < len(elems) {
			wrapped = append(wrapped, recast(elems[ai].T, SErr))
		}
		ai++
	}
	parts := []*Term{Eq(t, e)}
	for i, w := range wrapped {
		parts = append(parts, errIsT(w, t))
		if i == 0 {
			c.st.assume(Eq(App("unwrap1", SErr, e), w))
		}
	}
	c.st.assume(Forall([]*Term{t}, Eq(errIsT(e, t), Or(parts...))))
	return c.ret(scalar(e, c.resultType()))
}

func natErrorsIs(c *callCtx) []cont {
	c.ex.note("A-err: errors.New/fmt.Errorf/errors.Is/errors.Join/multierr.New compose errIs as documented")
	return c.ret(scalar(errIsT(c.args[0].T, c.args[1].T), types.Typ[types.Bool]))
}

// joinLike models errors.Join (identity=false) and multierr.New (identity=true:
// a single non-nil error is returned as is).
// iteLeaves flattens an if-then-else tree over literals into (condition, literal) cases.
func iteLeaves(t *Term, cond *Term, out *[][2]*Term, budget *int) bool {
	if t.Op == "ite" {
		*budget--
		if *budget < 0 {
			return false
		}
		return iteLeaves(t.Args[1], And(cond, t.Args[0]), out, budget) && iteLeaves(t.Args[2], And(cond, Not(t.Args[0])), out, budget)
	}
	if t.Op != "int" {
		return false
	}
	*out = append(*out, [2]*Term{cond, t})
	return true
}

func joinLike(c *callCtx, identity bool) []cont {
	// a merged state may carry a slice whose length is an if-then-else over literals: split it again here
	if v := c.args[0]; v.K == VSlice && v.Len.Op == "ite" {
		var cases [][2]*Term
		budget := 8
		if iteLeaves(v.Len, TTrue, &cases, &budget) && len(cases) > 1 {
			var outs []cont
			for i, cs := range cases {
				st := c.st
				if i < len(cases)-1 {
					st = c.st.clone()
				}
				st.assume(cs[0])
				nv := *v
				nv.Len = cs[1]
				nc := *c
				nc.st = st
				nc.args = append([]*Val{&nv}, c.args[1:]...)
				outs = append(outs, joinLike(&nc, identity)...)
			}
			return outs
		}
	}
	c.ex.note("A-err: errors.New/fmt.Errorf/errors.Is/errors.Join/multierr.New compose errIs as documented")
	elems, ok := c.varargs(c.args[0])
	st := c.st
	r := Fresh("joined", SErr)
	st.assume(Lt(r, recast(Add(st.alloc, IntLit(1, SRef)), SErr)))
	if !ok {
		// symbolic length: quantified characterisation
		v := c.args[0]
		n := "E|" + short(typeKey(v.Elem)) + "|"
		arr := Select(st.get(n, SArr(SRef, SArr(SInt, SErr))), v.Ref)
		j := BVar("j", SInt)
		t := BVar("t", SErr)
		inr := And(Le(IntLit(0, SInt), j), Lt(j, v.Len))
		st.assume(Eq(Eq(r, IntLit(0, SErr)), Forall([]*Term{j}, Implies(inr, Eq(Select(arr, j), IntLit(0, SErr))))))
		st.assume(Forall([]*Term{t}, Implies(Exists([]*Term{j}, And(inr, errIsT(Select(arr, j), t))), errIsT(r, t))))
		st.assume(Forall([]*Term{t}, Implies(And(errIsT(r, t), Neq(t, r)), Exists([]*Term{j}, And(inr, errIsT(Select(arr, j), t))))))
		st.alloc = Add(st.alloc, IntLit(1, SRef))
		return c.ret(scalar(r, c.resultType()))
	}
	nilE := IntLit(0, SErr)
	var allNil []*Term
	for _, e := range elems {
		allNil = append(allNil, Eq(e.T, nilE))
	}
	st.assume(Eq(Eq(r, nilE), And(allNil...)))
	t := BVar("t", SErr)
	var anyIs []*Term
	for _, e := range elems {
		anyIs = append(anyIs, errIsT(e.T, t))
	}
	var single []*Term
	if identity {
		for i, e := range elems {
			var others []*Term
			for k, o := range elems {
				if k != i {
					others = append(others, Eq(o.T, nilE))
				}
			}
			cond := And(append([]*Term{Neq(e.T, nilE)}, others...)...)
			st.assume(Implies(cond, Eq(r, recast(e.T, SErr))))
			single = append(single, cond)
		}
	}
	// otherwise the result is a freshly allocated composite
	fresh := And(Neq(r, nilE), Not(Or(single...)))
	st.assume(Implies(fresh, Eq(r, recast(st.alloc, SErr))))
	st.alloc = Add(st.alloc, IntLit(1, SRef))
	st.assume(Forall([]*Term{t}, Implies(fresh, Eq(errIsT(r, t), Or(anyIs...)))))
	return c.ret(scalar(r, c.resultType()))
}

func natErrorsJoin(c *callCtx) []cont  { return joinLike(c, false) }
func natMultierrNew(c *callCtx) []cont { return joinLike(c, true) }

// sync.Mutex: the mutex field is the ghost flag "held".
func natLock(c *callCtx) []cont {
	a := c.args[0]
	if a.K != VAddr {
		c.ex.fail("Lock on a mutex whose address is not a field")
	}
	held := c.ex.load(c.st, a.A).T
	c.ex.safetyCall(c.st, "lock", Not(held), c.site)
	c.ex.store(c.st, a.A, scalar(TTrue, a.A.Ty))
	c.ex.set(c.st, "G|ghost.lockOps|", Add(c.st.get("G|ghost.lockOps|", SInt), IntLit(1, SInt)))
	c.ex.note("A-mutex: sync.Mutex is modelled as a ghost held flag; Lock requires it free (no self-deadlock), Unlock requires it held")
	return c.ret(nil)
}

func natUnlock(c *callCtx) []cont {
	a := c.args[0]
	if a.K != VAddr {
		c.ex.fail("Unlock on a mutex whose address is not a field")
	}
	held := c.ex.load(c.st, a.A).T
	c.ex.safetyCall(c.st, "unlock", held, c.site)
	c.ex.store(c.st, a.A, scalar(TFalse, a.A.Ty))
	return c.ret(nil)
}

// maps.Keys returns an iterator; it is only consumed by slices.Sorted here.
func natOpaqueSeq(c *callCtx) []cont {
	r := c.ex.newRef(c.st, "seq")
	v := scalar(r, c.resultType())
	c.ex.seqOf[r] = &seqInfo{mapVal: c.args[0], mapTy: c.cc.Args[0].Type().Underlying().(*types.Map)}
	return c.ret(v)
}

// slices.Sorted(maps.Keys(m)): a sorted slice holding exactly the keys of m.
func natSlicesSorted(c *callCtx) []cont {
	c.ex.note("A-slices: slices.Sorted(maps.Keys(m)) returns exactly the keys of m, each once, in increasing order")
	st := c.st
	si := c.ex.seqOf[c.args[0].T]
	rt := c.resultType().Underlying().(*types.Slice)
	r := c.ex.newRef(st, "sorted")
	ln := Fresh("nkeys", SInt)
	st.assume(Ge(ln, IntLit(0, SInt)))
	res := &Val{K: VSlice, Ref: r, Len: ln, Ty: c.resultType(), Elem: rt.Elem()}
	if si == nil {
		return c.ret(res)
	}
	ks := keySort(si.mapTy)
	n := "E|" + short(typeKey(rt.Elem())) + "|"
	arr := st.get(n, SArr(SRef, SArr(SInt, ks)))
	elems := Fresh("sortedkeys", SArr(SInt, ks))
	c.ex.setAt(st, n, Store(arr, r, elems), r)
	j := BVar("j", SInt)
	k := BVar("k", ks)
	inr := And(Le(IntLit(0, SInt), j), Lt(j, ln))
	m := si.mapVal.T
	// every element is a key; every key is an element
	st.assume(Forall([]*Term{j}, Implies(inr, c.ex.mapHasNil(st, si.mapTy, m, Select(elems, j)))))
	idx := func(key *Term) *Term { return App("keyIndex$"+sanitizeTag(r.Name), SInt, key) }
	st.assume(Forall([]*Term{k}, Implies(c.ex.mapHasNil(st, si.mapTy, m, k), And(Le(IntLit(0, SInt), idx(k)), Lt(idx(k), ln), Eq(Select(elems, idx(k)), k)))))
	// no duplicates
	st.assume(Forall([]*Term{j}, Implies(inr, Eq(idx(Select(elems, j)), j))))
	st.assume(Eq(ln, c.ex.mapLen(st, si.mapTy, m)))
	return c.ret(res)
}

// slices.Sort permutes the elements in place: modelled as havoc of the element
// array with the same multiset of (scalar) elements.
func natSlicesSort(c *callCtx) []cont {
	c.ex.note("A-slices: slices.Sort/SortFunc permute the slice in place (same elements, order unspecified here)")
	st := c.st
	v := c.args[0]
	if v.K != VSlice || isByte(v.Elem) {
		c.ex.havocReachable(st, v)
		return c.ret(nil)
	}
	sh := shapeOf(v.Elem)
	if sh.K != ShScalar {
		c.ex.havocReachable(st, v)
		return c.ret(nil)
	}
	n := "E|" + short(typeKey(v.Elem)) + "|"
	arr := st.get(n, SArr(SRef, SArr(SInt, sh.Sort)))
	oldE := Select(arr, v.Ref)
	newE := Fresh("sortedelems", SArr(SInt, sh.Sort))
	c.ex.set(st, n, Store(arr, v.Ref, newE))
	j := BVar("j", SInt)
	inr := And(Le(IntLit(0, SInt), j), Lt(j, v.Len))
	p := func(x *Term) *Term { return App("perm$"+sanitizeTag(newE.Name), SInt, x) }
	q := func(x *Term) *Term { return App("perminv$"+sanitizeTag(newE.Name), SInt, x) }
	st.assume(Forall([]*Term{j}, Implies(inr, And(Le(IntLit(0, SInt), p(j)), Lt(p(j), v.Len), Eq(Select(newE, j), Select(oldE, p(j))), Eq(q(p(j)), j)))))
	st.assume(Forall([]*Term{j}, Implies(inr, And(Le(IntLit(0, SInt), q(j)), Lt(q(j), v.Len), Eq(p(q(j)), j), Eq(Select(newE, q(j)), Select(oldE, j))))))
	if sh.Sort == SStr {
		// sorted: no later element is smaller than an earlier one
		i2 := BVar("i", SInt)
		st.assume(Forall([]*Term{i2, j}, Implies(And(Le(IntLit(0, SInt), i2), Lt(i2, j), Lt(j, v.Len)), Not(App("strLess", SBool, Select(newE, j), Select(newE, i2))))))
	}
	return c.ret(nil)
}

func natSlicesSortFunc(c *callCtx) []cont {
	c.ex.note("A-slices: slices.Sort/SortFunc permute the slice in place (same elements, order unspecified here)")
	st := c.st
	v := c.args[0]
	sh := shapeOf(v.Elem)
	if v.K != VSlice || sh.K != ShScalar {
		c.ex.havocReachable(st, v)
		return c.ret(nil)
	}
	n := "E|" + short(typeKey(v.Elem)) + "|"
	arr := st.get(n, SArr(SRef, SArr(SInt, sh.Sort)))
	oldE := Select(arr, v.Ref)
	newE := Fresh("sortedelems", SArr(SInt, sh.Sort))
	c.ex.set(st, n, Store(arr, v.Ref, newE))
	j := BVar("j", SInt)
	inr := And(Le(IntLit(0, SInt), j), Lt(j, v.Len))
	p := func(x *Term) *Term { return App("perm$"+sanitizeTag(newE.Name), SInt, x) }
	q := func(x *Term) *Term { return App("perminv$"+sanitizeTag(newE.Name), SInt, x) }
	st.assume(Forall([]*Term{j}, Implies(inr, And(Le(IntLit(0, SInt), p(j)), Lt(p(j), v.Len), Eq(Select(newE, j), Select(oldE, p(j))), Eq(q(p(j)), j)))))
	st.assume(Forall([]*Term{j}, Implies(inr, And(Le(IntLit(0, SInt), q(j)), Lt(q(j), v.Len), Eq(p(q(j)), j), Eq(Select(newE, q(j)), Select(oldE, j))))))
	return c.ret(nil)
}

type seqInfo struct {
	mapVal *Val
	mapTy  *types.Map
}

type boxInfo struct {
	val *Val
	ty  types.Type
}

// A-sf: singleflight.Group.Do either runs fn once in the calling goroutine (the
// caller "won") or returns the result of another caller's run of the same
// function value. In the second case the shared state may have been changed by
// that other run: everything fn can write (except the caller's own captured
// local cells) is havocked, and the clauses of fn's contract labelled
// "shared ..." are assumed of the returned values.
func natSingleDo(c *callCtx) []cont {
	ex := c.ex
	ex.note("A-sf: singleflight.Do runs fn at most once per key at a time, in the calling goroutine (winner) or returns another caller's result of the same function (loser)")
	fnv := c.args[2]
	if fnv.Clo == nil {
		return ex.unknownCall(c)
	}
	clo := fnv.Clo
	ex.nativeAtCalls(c, "(*golang.org/x/sync/singleflight.Group).Do")
	anyT := c.sig.Results().At(0).Type()
	errT := c.sig.Results().At(1).Type()
	boolT := c.sig.Results().At(2).Type()
	// winner
	ws := c.st.clone()
	ws.path += "W"
	wctx := &callCtx{ex: ex, st: ws, cc: c.cc, site: c.site, sig: clo.fn.Signature, forceInline: true}
	var outs []cont
	for _, r := range ex.callFunc(ws, clo.fn, nil, clo.binds, c.site, wctx) {
		if r.panicked {
			outs = append(outs, r)
			continue
		}
		fs := r.val.Fs
		r.st.notes = append(r.st.notes, "sf:winner")
		ex.set(r.st, "G|ghost.sfWon|", TTrue)
		outs = append(outs, cont{st: r.st, val: &Val{K: VTuple, Fs: []*Val{fs[0], fs[1], freshVal("shared", boolT)}, Ty: c.sig.Results()}})
	}
	// loser
	ls := c.st
	ls.path += "L"
	if !ex.collect {
		before := ls.clone()
		ws := ex.eng.cachedWrites(clo.fn)
		var names []string
		for n := range ws {
			if strings.HasPrefix(n, "F|") && !strings.Contains(strings.SplitN(n[2:], "|", 2)[0], ".") {
				continue // a captured local cell of this caller, not shared state
			}
			names = append(names, n)
		}
		sort.Strings(names)
		for _, n := range names {
			arrSorts[n] = ws[n]
			ex.havocArr(ls, n)
		}
		ex.bumpAlloc(ls)
		v := freshVal("sfv", anyT)
		e := freshVal("sferr", errT)
		ex.assumeResultTyped(ls, v)
		ex.assumeResultTyped(ls, e)
		if fc := ex.eng.contractFor(clo.fn); fc != nil {
			vars := map[string]*Val{}
			for i, fv := range clo.fn.FreeVars {
				if i < len(clo.binds) {
					vars[fv.Name()] = ex.derefBind(ls, clo.binds[i], fv.Type())
				}
			}
			if len(fc.Results) >= 2 {
				vars[fc.Results[0]] = v
				vars[fc.Results[1]] = e
			}
			for _, cl := range fc.Ensures {
				if !strings.HasPrefix(cl.Label, "shared") {
					continue
				}
				env := &Env{ex: ex, cur: ls, old: before, vars: vars, pkg: ex.pkgOfKey(fc, clo.fn)}
				ls.assume(ex.evalWith(env, cl))
			}
		}
		ls.notes = append(ls.notes, "sf:loser")
		ex.set(ls, "G|ghost.sfWon|", TFalse)
		outs = append(outs, cont{st: ls, val: &Val{K: VTuple, Fs: []*Val{v, e, freshVal("shared", boolT)}, Ty: c.sig.Results()}})
	}
	return outs
}
