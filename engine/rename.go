package main

import (
	"encoding/json"
	"go/ast"
	"go/types"
	"os"
	"path/filepath"
	"sort"
	"sync"

	"golang.org/x/tools/go/ssa"
)

// Renamed locals. Contracts live in a separate file and name locals of the function
// (loop invariants, call-site assertions). A harmless rename of a local would turn
// into "unknown identifier". expected/locals.json records, for every function under
// contract, its free variables and declared locals (name, type, declaration order) on
// the tree the contracts were written for. When a contract names a local that no
// longer exists, and the function still declares the same number of locals of that
// type, the local at the same ordinal among those of its type -- provided its name is
// new -- is taken to be the renamed one. Anything less clear-cut stays an error.

type localInfo struct {
	Name string `json:"n"`
	Type string `json:"t"`
}

var (
	baseLocals     map[string][]localInfo
	baseLocalsOnce sync.Once
	baseLocalsDir  string
	curLocalsMu    sync.Mutex
	curLocals      = map[*ssa.Function][]localInfo{}
	renameNotes    sync.Map
)

func localsOf(f *ssa.Function) []localInfo {
	curLocalsMu.Lock()
	defer curLocalsMu.Unlock()
	if l, ok := curLocals[f]; ok {
		return l
	}
	var out []localInfo
	for _, fv := range f.FreeVars {
		out = append(out, localInfo{fv.Name(), types.TypeString(deref(fv.Type()), nil)})
	}
	params := map[string]bool{}
	for _, p := range f.Params {
		params[p.Name()] = true
	}
	type pv struct {
		v *types.Var
	}
	seen := map[*types.Var]bool{}
	var vs []*types.Var
	for _, b := range f.Blocks {
		for _, in := range b.Instrs {
			d, ok := in.(*ssa.DebugRef)
			if !ok {
				continue
			}
			if _, isIdent := d.Expr.(*ast.Ident); !isIdent {
				continue
			}
			vo, isVar := d.Object().(*types.Var)
			if !isVar || vo.IsField() || seen[vo] || params[vo.Name()] {
				continue
			}
			if vo.Pos() < f.Pos() {
				continue // captured from the parent: listed as a free variable
			}
			seen[vo] = true
			vs = append(vs, vo)
		}
	}
	sort.Slice(vs, func(i, j int) bool { return vs[i].Pos() < vs[j].Pos() })
	for _, v := range vs {
		out = append(out, localInfo{v.Name(), types.TypeString(v.Type(), nil)})
	}
	curLocals[f] = out
	return out
}

func loadBaseLocals() {
	baseLocals = map[string][]localInfo{}
	if baseLocalsDir == "" {
		baseLocalsDir = os.Getenv("VERIF_HOME")
	}
	if baseLocalsDir == "" {
		baseLocalsDir = "/verif"
	}
	if b, err := os.ReadFile(filepath.Join(baseLocalsDir, "expected", "locals.json")); err == nil {
		json.Unmarshal(b, &baseLocals)
	}
}

// renamedLocal maps a name a contract uses for a local of f to the local's present name.
func renamedLocal(f *ssa.Function, name string) (string, bool) {
	baseLocalsOnce.Do(loadBaseLocals)
	base, ok := baseLocals[f.String()]
	if !ok {
		return "", false
	}
	baseNames := map[string]bool{}
	var ty string
	k := -1
	for _, b := range base {
		baseNames[b.Name] = true
	}
	n := 0
	for _, b := range base {
		if b.Name == name && k < 0 {
			ty = b.Type
			k = 0
			for _, c := range base {
				if c == b {
					break
				}
				if c.Type == ty {
					k++
				}
			}
		}
	}
	if k < 0 {
		return "", false
	}
	for _, b := range base {
		if b.Type == ty {
			n++
		}
	}
	var cur []localInfo
	for _, c := range localsOf(f) {
		if c.Name == name {
			return "", false // it exists (not in scope here): not a rename
		}
		if c.Type == ty {
			cur = append(cur, c)
		}
	}
	if len(cur) != n || k >= len(cur) || baseNames[cur[k].Name] {
		return "", false
	}
	renameNotes.Store(f.String()+": local "+name+" is now "+cur[k].Name, true)
	return cur[k].Name, true
}

// writeBaseLocals records the locals of every function under contract.
func writeBaseLocals(eng *Engine, dir string) {
	out := map[string][]localInfo{}
	for k := range eng.specs.Funcs {
		for _, f := range eng.funcs[k] {
			if f.Blocks == nil {
				continue
			}
			out[f.String()] = localsOf(f)
			for _, an := range f.AnonFuncs {
				out[an.String()] = localsOf(an)
			}
		}
	}
	b, _ := json.MarshalIndent(out, "", " ")
	os.MkdirAll(filepath.Join(dir, "expected"), 0755)
	os.WriteFile(filepath.Join(dir, "expected", "locals.json"), append(b, '\n'), 0644)
}
