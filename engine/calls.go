package main

// Call handling: builtins, native stubs, contracts, inlining, unknown externals.

import (
	"fmt"
	"go/types"
	"os"
	"sort"
	"strings"

	"golang.org/x/tools/go/ssa"
)

type cont struct {
	st       *State
	val      *Val
	panicked bool
	msg      string
}

type callCtx struct {
	ex    *Exec
	st    *State
	cc    *ssa.CallCommon
	args  []*Val
	site  ssa.Instruction
	key   string
	sig   *types.Signature
	binds []*Val
	// forceInline: execute the body even if the callee has a contract (the winner of a singleflight)
	forceInline bool
}

func (c *callCtx) ret(v *Val) []cont { return []cont{{st: c.st, val: v}} }

func (c *callCtx) resultType() types.Type {
	rs := c.sig.Results()
	switch rs.Len() {
	case 0:
		return nil
	case 1:
		return rs.At(0).Type()
	}
	return rs
}

func (c *callCtx) tuple(vs ...*Val) []cont {
	return c.ret(&Val{K: VTuple, Fs: vs, Ty: c.sig.Results()})
}

func funcKey(fn *ssa.Function) string {
	s := fn.String()
	if o := fn.Origin(); o != nil {
		s = o.String()
	}
	// closures inside generic instances: strip instantiation brackets
	return stripTypeArgs(s)
}

func stripTypeArgs(s string) string {
	var sb strings.Builder
	depth := 0
	for i := 0; i < len(s); i++ {
		c := s[i]
		if c == '[' {
			depth++
			continue
		}
		if c == ']' {
			depth--
			continue
		}
		if depth == 0 {
			sb.WriteByte(c)
		}
	}
	return sb.String()
}

func (ex *Exec) doCall(st *State, cc *ssa.CallCommon, fnv *Val, args []*Val, site ssa.Instruction) []cont {
	ctx := &callCtx{ex: ex, st: st, cc: cc, args: args, site: site, sig: cc.Signature()}
	if cc.IsInvoke() {
		recvT := cc.Value.Type()
		key := "(" + typeKey(recvT) + ")." + cc.Method.Name()
		ctx.key = key
		// receiver is the first argument for contract purposes
		ctx.args = append([]*Val{fnv}, args...)
		// if the dynamic type is statically known, dispatch
		if fnv.BoxTy != nil {
			if m := ex.eng.prog.LookupMethod(fnv.BoxTy, cc.Method.Pkg(), cc.Method.Name()); m != nil {
				recv := fnv.Box
				return ex.callFunc(st, m, append([]*Val{recv}, args...), nil, site, ctx)
			}
		}
		ex.safetyCall(st, "nil", Neq(fnv.T, IntLit(0, fnv.T.Sort)), site)
		ex.interfere(st, key)
		if nat, ok := natives[key]; ok {
			return nat(ctx)
		}
		if fc := ex.eng.specs.Funcs[key]; fc != nil {
			return ex.applyContract(ctx, fc, nil)
		}
		return ex.unknownCall(ctx)
	}
	if b, ok := cc.Value.(*ssa.Builtin); ok {
		return ex.builtin(ctx, b)
	}
	if f := cc.StaticCallee(); f != nil {
		var binds []*Val
		if fnv != nil && fnv.Clo != nil && fnv.Clo.fn == f {
			binds = fnv.Clo.binds
		}
		return ex.callFunc(st, f, args, binds, site, ctx)
	}
	// dynamic call of a function value
	if fnv != nil && fnv.Clo != nil {
		return ex.callFunc(st, fnv.Clo.fn, args, fnv.Clo.binds, site, ctx)
	}
	ctx.key = ex.funcValueKey(st, cc.Value)
	ex.safetyCall(st, "nil", Neq(fnv.T, IntLit(0, fnv.T.Sort)), site)
	ex.interfere(st, ctx.key)
	if nat, ok := natives[ctx.key]; ok {
		return nat(ctx)
	}
	if fc := ex.eng.specs.Funcs[ctx.key]; fc != nil {
		return ex.applyContract(ctx, fc, nil)
	}
	return ex.unknownCall(ctx)
}

func (ex *Exec) safetyCall(st *State, kind string, g *Term, site ssa.Instruction) {
	if site == nil {
		return
	}
	ex.safety(st, kind, g, site)
}

// funcValueKey names a dynamic callee by where the function value came from.
func (ex *Exec) funcValueKey(st *State, v ssa.Value) string {
	switch x := v.(type) {
	case *ssa.UnOp:
		if fa, ok := x.X.(*ssa.FieldAddr); ok {
			stT := deref(fa.X.Type())
			return "field:" + typeKey(stT) + "." + stT.Underlying().(*types.Struct).Field(fa.Field).Name()
		}
	case *ssa.Field:
		stT := x.X.Type()
		return "field:" + typeKey(stT) + "." + stT.Underlying().(*types.Struct).Field(x.Field).Name()
	case *ssa.Parameter:
		return "param:" + funcKey(x.Parent()) + "." + x.Name()
	case *ssa.Phi:
		if x.Comment != "" {
			return "local:" + funcKey(x.Parent()) + "." + x.Comment
		}
	case *ssa.Call:
		if f := x.Common().StaticCallee(); f != nil {
			return "resultof:" + funcKey(f)
		}
	case *ssa.FreeVar:
		return "freevar:" + funcKey(x.Parent()) + "." + x.Name()
	case *ssa.Extract:
		if c, ok := x.Tuple.(*ssa.Call); ok {
			if f := c.Common().StaticCallee(); f != nil {
				return fmt.Sprintf("resultof:%s#%d", funcKey(f), x.Index)
			}
		}
	}
	return "dynamic:" + v.Name()
}

// interfere applies the caller's rely condition before a call to key.
func (ex *Exec) interfere(st *State, key string) {
	if len(st.frames) == 0 {
		return
	}
	fr := st.top()
	cf := ex.eng.contractFor(fr.fn)
	if cf == nil {
		// an inlined function literal or helper without a contract is part of the nearest function under
		// contract on the stack: that function's interference clauses apply, evaluated in its frame
		for i := len(st.frames) - 2; i >= 0 && cf == nil; i-- {
			if c := ex.eng.contractFor(st.frames[i].fn); c != nil {
				cf, fr = c, st.frames[i]
			}
		}
	}
	if cf == nil {
		return
	}
	for _, in := range cf.Interference {
		hit := false
		for _, a := range in.At {
			if callMatches(a, key) {
				hit = true
			}
		}
		if !hit {
			continue
		}
		ex.note("A-rely: between the calls of " + funcShort(fr.fn) + " other goroutines may run " + strings.Join(in.Writers, ", ") + ", each atomically with respect to these calls; the condition assumed afterwards (" + in.Assume.Src + ") is proved as a guarantee of each of these writers (obligations 'guarantee')")
		before := st.clone()
		ws := map[string]*Sort{}
		for _, w := range in.Writers {
			found := false
			for k, fns := range ex.eng.funcs {
				if callMatches(w, k) {
					for _, f := range fns {
						found = true
						for n, s := range ex.eng.cachedWrites(f) {
							ws[n] = s
						}
					}
				}
			}
			if !found {
				ex.fail("interference: unknown writer %s", w)
			}
		}
		names := make([]string, 0, len(ws))
		for n := range ws {
			names = append(names, n)
		}
		sort.Strings(names)
		for _, n := range names {
			arrSorts[n] = ws[n]
			ex.havocArr(st, n)
		}
		ex.bumpAlloc(st)
		if !ex.collect {
			env := ex.envFor(st, fr, nil)
			env.old = before
			ex.bindOwnParams(env, fr)
			st.assume(ex.evalWith(env, in.Assume))
			if in.Observe != nil {
				st.assume(ex.evalWith(env, in.Observe))
			}
		}
	}
}

func (ex *Exec) callFunc(st *State, f *ssa.Function, args []*Val, binds []*Val, site ssa.Instruction, ctx *callCtx) []cont {
	key := funcKey(f)
	ctx.key = key
	ctx.args = args
	ctx.binds = binds
	ex.interfere(st, key)
	if nat, ok := natives[key]; ok {
		return nat(ctx)
	}
	// contracts specialised by the static type inside an interface argument
	for i, a := range args {
		if a != nil && a.K == VScalar && a.BoxTy != nil && a.Box != nil {
			skey := key + "[" + short(typeKey(a.BoxTy)) + "]"
			if sfc := ex.eng.specs.Funcs[skey]; sfc != nil {
				nargs := append([]*Val{}, args...)
				b := *a.Box
				b.Ty = a.BoxTy
				nargs[i] = &b
				ctx.key = skey
				ctx.args = nargs
				return ex.applyContract(ctx, sfc, nil)
			}
		}
	}
	fc := ex.eng.specs.Funcs[key]
	inModule := f.Blocks != nil && strings.HasPrefix(pkgPathOf(f), modPath)
	depth := 0
	if len(st.frames) > 0 {
		depth = st.top().depth
	}
	if fc != nil && !ctx.forceInline && !(fc.Inline && inModule) && (len(fc.Ensures) > 0 || len(fc.Requires) > 0 || fc.Trusted || !inModule) {
		return ex.applyContract(ctx, fc, f)
	}
	if inModule || (f.Blocks != nil && f.Parent() != nil && binds != nil) {
		if depth >= maxInlineDepth {
			ex.fail("inlining depth exceeded at %s", f)
		}
		if ex.collect {
			// in collect mode use the cached write set instead of re-executing
			if ws := ex.eng.cachedWrites(f); ws != nil {
				return ex.havocCall(ctx, ws)
			}
		}
		if f.Parent() != nil && binds == nil && len(f.FreeVars) > 0 {
			ex.fail("closure %s called without known bindings", f)
		}
		outs := ex.execFunc(st, f, args, binds, depth+1)
		var cs []cont
		for _, o := range outs {
			if o.kind == OPanic {
				cs = append(cs, cont{st: o.st, panicked: true, msg: o.msg})
				continue
			}
			var v *Val
			switch len(o.results) {
			case 0:
			case 1:
				v = o.results[0]
			default:
				v = &Val{K: VTuple, Fs: o.results, Ty: f.Signature.Results()}
			}
			cs = append(cs, cont{st: o.st, val: v})
		}
		return cs
	}
	return ex.unknownCall(ctx)
}

func pkgPathOf(f *ssa.Function) string {
	g := f
	if o := f.Origin(); o != nil {
		g = o
	}
	for g.Parent() != nil {
		g = g.Parent()
	}
	if g.Pkg != nil {
		return g.Pkg.Pkg.Path()
	}
	if o := g.Object(); o != nil && o.Pkg() != nil {
		return o.Pkg().Path()
	}
	return ""
}

// havocCall models a call by havocking a write set and returning fresh results.
func (ex *Exec) havocCall(ctx *callCtx, ws map[string]*Sort) []cont {
	names := make([]string, 0, len(ws))
	for n := range ws {
		names = append(names, n)
	}
	sort.Strings(names)
	for _, n := range names {
		arrSorts[n] = ws[n]
		ex.havocArr(ctx.st, n)
	}
	ex.bumpAlloc(ctx.st)
	return ctx.ret(ex.freshResult(ctx))
}

func (ex *Exec) bumpAlloc(st *State) {
	na := Fresh("alloc", SRef)
	st.assume(Ge(na, st.alloc))
	st.alloc = na
}

func (ex *Exec) freshResult(ctx *callCtx) *Val {
	rt := ctx.resultType()
	if rt == nil {
		return nil
	}
	v := freshVal("res_"+sanitizeTag(lastPart(ctx.key)), rt)
	if v.K == VStruct {
		v.K = VTuple
	}
	ex.assumeResultTyped(ctx.st, v)
	return v
}

func lastPart(s string) string {
	if i := strings.LastIndexAny(s, "./"); i >= 0 {
		return s[i+1:]
	}
	return s
}

func (ex *Exec) assumeResultTyped(st *State, v *Val) {
	switch v.K {
	case VScalar:
		if v.T.Sort == SErr {
			// errors may be sentinel variables, which live below the allocation range
			st.assume(Lt(v.T, coerce(st.alloc, v.T.Sort)))
		} else if v.T.Sort.Kind == SKInt && v.T.Sort != SInt && v.T.Sort != STime {
			st.assume(And(Ge(v.T, IntLit(0, v.T.Sort)), Lt(v.T, coerce(st.alloc, v.T.Sort))))
		}
	case VSlice:
		st.assume(And(Ge(v.Ref, IntLit(0, SRef)), Lt(v.Ref, st.alloc), Ge(v.Len, IntLit(0, SInt))))
		st.assume(Implies(Eq(v.Ref, IntLit(0, SRef)), Eq(v.Len, IntLit(0, SInt))))
		if isByte(v.Elem) {
			st.assume(Eq(slen(ex.bytesOf(st, v.Ref)), v.Len))
		}
	case VStruct, VTuple:
		for _, f := range v.Fs {
			ex.assumeResultTyped(st, f)
		}
	}
}

// unknownCall is the default frame for externals without a stub: result
// unconstrained; contents directly reachable from pointer/slice/map arguments
// havocked; everything else preserved.
func (ex *Exec) unknownCall(ctx *callCtx) []cont {
	ex.note("A-unknown-ext: " + short(ctx.key) + " has no stub: result unconstrained, direct pointees of its arguments havocked, all else preserved")
	if !ex.collect {
		ex.eng.unknownCalls[short(ctx.key)]++
	}
	st := ctx.st
	if ctx.sig != nil && ctx.key != "" {
		ex.nativeAtCalls(ctx, ctx.key) // the caller's call-site assertions hold for calls without a stub too
	}
	for _, a := range ctx.args {
		ex.havocReachable(st, a)
	}
	ex.bumpAlloc(st)
	return ctx.ret(ex.freshResult(ctx))
}

func (ex *Exec) havocReachable(st *State, a *Val) {
	if a == nil {
		return
	}
	switch a.K {
	case VAddr:
		ex.havocAt(st, a.A)
	case VSlice:
		if isByte(a.Elem) {
			nb := Fresh("hvbytes", SStr)
			st.assume(Eq(slen(nb), slen(ex.bytesOf(st, a.Ref))))
			ex.setBytes(st, a.Ref, nb)
		} else if a.Elem != nil {
			for _, l := range shapeLeaves(shapeOf(a.Elem), "") {
				n := "E|" + short(typeKey(a.Elem)) + "|" + l.path
				arr := st.get(n, SArr(SRef, SArr(SInt, l.sort)))
				ex.setAt(st, n, Store(arr, a.Ref, Fresh("hvelems", SArr(SInt, l.sort))), a.Ref)
			}
		}
	case VScalar:
		if a.Ty == nil {
			return
		}
		switch t := a.Ty.Underlying().(type) {
		case *types.Pointer:
			if shapeOf(t.Elem()).K == ShScalar && shapeOf(t.Elem()).Sort == SOpq {
				return
			}
			ex.havocAt(st, &Addr{Kind: AObj, Root: t.Elem(), Obj: a.T, Ty: t.Elem()})
		case *types.Map:
			ex.havocMap(st, t, a.T)
		case *types.Interface:
			if a.Box != nil && a.BoxTy != nil {
				b := *a.Box
				b.Ty = a.BoxTy
				ex.havocReachable(st, &b)
			}
		}
	case VStruct, VTuple:
		for _, f := range a.Fs {
			ex.havocReachable(st, f)
		}
	}
}

// ---------------------------------------------------------------- contracts

func (ex *Exec) bindParams(fc *FuncContract, args []*Val, f *ssa.Function) map[string]*Val {
	vars := map[string]*Val{}
	for i, n := range fc.Params {
		if i < len(args) {
			vars[n] = args[i]
		}
	}
	if f != nil {
		for i, p := range f.Params {
			if i < len(args) {
				if _, ok := vars[p.Name()]; !ok {
					vars[p.Name()] = args[i]
				}
			}
		}
	}
	return vars
}

func bindResults(fc *FuncContract, res *Val, vars map[string]*Val) {
	if res == nil {
		return
	}
	var rs []*Val
	if res.K == VTuple {
		rs = res.Fs
	} else {
		rs = []*Val{res}
	}
	for i, n := range fc.Results {
		if i < len(rs) {
			vars[n] = rs[i]
		}
	}
	if len(rs) == 1 {
		vars["result"] = rs[0]
	}
}

func (ex *Exec) pkgOfKey(fc *FuncContract, f *ssa.Function) *types.Package {
	if fc.Pkg != "" {
		if tp := ex.eng.typesPkgs[fc.Pkg]; tp != nil {
			return tp
		}
	}
	if f != nil {
		if p := pkgPathOf(f); p != "" {
			if tp := ex.eng.typesPkgs[p]; tp != nil {
				return tp
			}
		}
	}
	if fc.Pkg != "" {
		return ex.eng.typesPkgs[fc.Pkg]
	}
	return nil
}

// applyContract replaces a call by assert requires; havoc modifies; assume ensures.
// callPre evaluates a callee's preconditions and the caller's call-site assertions at a call (or go
// statement): each becomes an obligation of the caller and is then assumed.
func (ex *Exec) callPre(ctx *callCtx, fc *FuncContract, f *ssa.Function, kind string) (map[string]*Val, func(cur, old *State, c *Clause, vars map[string]*Val) *Term) {
	st := ctx.st
	vars := ex.bindParams(fc, ctx.args, f)
	if f != nil && len(f.FreeVars) > 0 {
		if ctx.binds == nil {
			ex.fail("closure %s called by contract without known bindings", f)
		}
		for i, fv := range f.FreeVars {
			if i < len(ctx.binds) {
				vars[fv.Name()] = ex.derefBind(st, ctx.binds[i], fv.Type())
			}
		}
	}
	pkg := ex.pkgOfKey(fc, f)
	evalIn := func(cur, old *State, c *Clause, vars map[string]*Val) *Term {
		env := &Env{ex: ex, cur: cur, old: old, vars: vars, pkg: pkg}
		defer func() {
			if r := recover(); r != nil {
				if se, ok := r.(specErr); ok {
					ex.fail("contract error at %s:%d (%s): %s", c.File, c.Line, c.Src, se.msg)
				}
				panic(r)
			}
		}()
		v := env.eval(c.E)
		if v.K != VScalar || v.T.Sort != SBool {
			ex.fail("contract clause at %s:%d is not boolean", c.File, c.Line)
		}
		return v.T
	}
	if !ex.collect {
		seq := ex.callSeq[ctx.key]
		ex.callSeq[ctx.key] = seq + 1
		for _, c := range fc.Requires {
			g := evalIn(st, st, c, vars)
			label := fmt.Sprintf("%s.%s", short(lastFunc(ctx.key)), c.Label)
			ex.oblige(st, "requires@"+kind, label, c.Tags, g, c.Src, ex.eng.pos(ctx.site.Pos()))
			st.assume(g)
		}
		// call-site assertions declared by the caller's contract
		if cf := ex.eng.contractFor(st.top().fn); cf != nil {
			for _, ca := range cf.AtCalls {
				if callMatches(ca.Callee, ctx.key) {
					fr := st.top()
					env := ex.envFor(st, fr, nil)
					for k, v := range vars {
						env.vars["arg_"+k] = v
					}
					ex.bindOwnParams(env, fr)
					g := ex.evalWith(env, ca.C)
					ex.oblige(st, "assert@"+kind, fmt.Sprintf("%s.%s", short(lastFunc(ctx.key)), ca.C.Label), ca.C.Tags, g, ca.C.Src, ex.eng.pos(ctx.site.Pos()))
					st.assume(g)
				}
			}
		}
	}
	return vars, evalIn
}

func (ex *Exec) applyContract(ctx *callCtx, fc *FuncContract, f *ssa.Function) []cont {
	st := ctx.st
	vars, evalIn := ex.callPre(ctx, fc, f, "call")
	pkg := ex.pkgOfKey(fc, f)
	_ = pkg
	old := st.clone()
	// havoc
	if f != nil && f.Blocks != nil && !fc.Trusted && strings.HasPrefix(pkgPathOf(f), modPath) {
		ws := ex.eng.cachedWrites(f)
		names := make([]string, 0, len(ws))
		for n := range ws {
			names = append(names, n)
		}
		sort.Strings(names)
		for _, n := range names {
			arrSorts[n] = ws[n]
			ex.havocArr(st, n)
		}
	} else {
		ex.applyModifies(ctx, fc, vars)
	}
	ex.bumpAlloc(st)
	res := ex.freshResult(ctx)
	if fc.FreshResult && res != nil {
		res = ex.freshenRefs(st, res)
	}
	if ex.collect {
		return ctx.ret(res)
	}
	rvars := map[string]*Val{}
	for k, v := range vars {
		rvars[k] = v
	}
	if f != nil && len(f.FreeVars) > 0 {
		for i, fv := range f.FreeVars {
			if i < len(ctx.binds) {
				rvars[fv.Name()] = ex.derefBind(st, ctx.binds[i], fv.Type())
			}
		}
	}
	bindResults(fc, res, rvars)
	for _, c := range fc.Ensures {
		// a clause that mentions the callee's locals is internal to the callee: not assumed here
		if fc.Trusted || f == nil || f.Blocks == nil {
			st.assume(evalIn(st, old, c, rvars))
		} else if t := ex.tryEvalClause(st, old, c, rvars, pkg); t != nil {
			st.assume(t)
		}
	}
	if fc.Trusted || f == nil || f.Blocks == nil {
		ex.note("A-stub: assumed contract of " + short(ctx.key))
	}
	conts := []cont{{st: st, val: res}}
	if fc.Panics != nil {
		// the callee may panic under its specified condition
		ps := old.clone()
		ps.assume(evalIn(ps, ps, fc.Panics, vars))
		st.assume(Not(evalIn(old, old, fc.Panics, vars)))
		conts = append(conts, cont{st: ps, panicked: true, msg: "specified panic of " + short(ctx.key)})
	}
	return conts
}

func lastFunc(key string) string {
	if i := strings.LastIndex(key, "/"); i >= 0 {
		return key[i+1:]
	}
	return key
}

// nativeAtCalls raises the caller's call-site assertions at a call the engine models natively (no contract
// to bind parameter names from: the names are those of the callee's declared signature).
func (ex *Exec) nativeAtCalls(c *callCtx, key string) {
	if ex.collect || c.site == nil {
		return
	}
	st := c.st
	cf := ex.eng.contractFor(st.top().fn)
	if cf == nil {
		return
	}
	for _, ca := range cf.AtCalls {
		if !callMatches(ca.Callee, key) {
			continue
		}
		fr := st.top()
		env := ex.envFor(st, fr, nil)
		ps := c.sig.Params()
		off := len(c.args) - ps.Len()
		for i := 0; i < ps.Len(); i++ {
			if n := ps.At(i).Name(); n != "" && off+i >= 0 && off+i < len(c.args) {
				env.vars["arg_"+n] = c.args[off+i]
			}
		}
		ex.bindOwnParams(env, fr)
		g := ex.evalWith(env, ca.C)
		ex.oblige(st, "assert@call", fmt.Sprintf("%s.%s", short(lastFunc(key)), ca.C.Label), ca.C.Tags, g, ca.C.Src, ex.eng.pos(c.site.Pos()))
		st.assume(g)
	}
}

func callMatches(pattern, key string) bool {
	k := short(key)
	return k == pattern || strings.HasSuffix(k, "."+pattern) || strings.HasSuffix(k, ")."+pattern) || lastFunc(key) == pattern ||
		(strings.Contains(pattern, ".") && strings.HasSuffix(k, "/"+pattern)) // pkgname.Func of an imported package
}

func (ex *Exec) bindOwnParams(env *Env, fr *Frame) {
	if fc := ex.eng.contractFor(fr.fn); fc != nil {
		for i, n := range fc.Params {
			if i < len(fr.fn.Params) {
				env.vars[n] = fr.vals[fr.fn.Params[i]]
			}
		}
	}
}

func (ex *Exec) evalWith(env *Env, c *Clause) (res *Term) {
	defer func() {
		if r := recover(); r != nil {
			if se, ok := r.(specErr); ok {
				ex.fail("contract error at %s:%d (%s): %s", c.File, c.Line, c.Src, se.msg)
			}
			panic(r)
		}
	}()
	v := env.eval(c.E)
	if v.K != VScalar || v.T.Sort != SBool {
		env.fail("clause is not boolean")
	}
	return v.T
}

// applyModifies havocs what a stub declares it may change.
func (ex *Exec) applyModifies(ctx *callCtx, fc *FuncContract, vars map[string]*Val) {
	st := ctx.st
	for _, m := range fc.Modifies {
		switch {
		case strings.HasPrefix(m, "ghost "):
			n := "G|ghost." + strings.TrimSpace(strings.TrimPrefix(m, "ghost ")) + "|"
			if _, ok := arrSorts[n]; !ok {
				g := ex.eng.specs.Ghosts[strings.TrimSpace(strings.TrimPrefix(m, "ghost "))]
				if g == nil {
					ex.fail("modifies: unknown ghost %s", m)
				}
				env := &Env{ex: ex, cur: st, old: st, vars: map[string]*Val{}}
				env.ghost(g)
			}
			ex.havocArr(st, n)
		case strings.HasPrefix(m, "map *"):
			v := vars[strings.TrimPrefix(m, "map *")]
			if v == nil {
				ex.fail("modifies: unknown parameter %s", m)
			}
			// contents of the map the pointer currently refers to
			var mv *Val
			var pt types.Type
			if v.K == VAddr {
				mv = ex.load(st, v.A)
				pt = v.A.Ty
			} else if p, ok := v.Ty.Underlying().(*types.Pointer); ok {
				mv = ex.load(st, &Addr{Kind: AObj, Root: p.Elem(), Obj: v.T, Ty: p.Elem()})
				pt = p.Elem()
			}
			if mt, ok := pt.Underlying().(*types.Map); ok && mv != nil {
				ex.havocMap(st, mt, mv.T)
			} else {
				ex.fail("modifies: %s is not a pointer to a map", m)
			}
		case strings.HasPrefix(m, "*"):
			v := vars[strings.TrimPrefix(m, "*")]
			if v == nil {
				ex.fail("modifies: unknown parameter %s", m)
			}
			ex.havocReachable(st, v)
		case strings.HasPrefix(m, "bytes(") && strings.HasSuffix(m, ")"):
			v := vars[m[6:len(m)-1]]
			if v == nil || v.K != VSlice {
				ex.fail("modifies: %s is not a byte slice parameter", m)
			}
			ex.havocReachable(st, v)
		case strings.HasPrefix(m, "array "):
			n := strings.TrimSpace(strings.TrimPrefix(m, "array "))
			if _, ok := arrSorts[n]; ok {
				ex.havocArr(st, n)
			}
		case m == "nothing":
		default:
			ex.fail("modifies: cannot interpret %q", m)
		}
	}
}

// ---------------------------------------------------------------- builtins

func (ex *Exec) builtin(ctx *callCtx, b *ssa.Builtin) []cont {
	st := ctx.st
	a := ctx.args
	switch b.Name() {
	case "len":
		v := a[0]
		switch {
		case v.K == VSlice:
			return ctx.ret(scalar(v.Len, types.Typ[types.Int]))
		case v.K == VScalar && v.T.Sort == SStr:
			return ctx.ret(scalar(slen(v.T), types.Typ[types.Int]))
		}
		if mt, ok := ctx.cc.Args[0].Type().Underlying().(*types.Map); ok {
			ln := Ite(Eq(v.T, IntLit(0, SRef)), IntLit(0, SInt), ex.mapLen(st, mt, v.T))
			// the length of a map is the size of its key set
			k := BVar("k", keySort(mt))
			st.assume(Ge(ln, IntLit(0, SInt)))
			st.assume(Implies(Eq(ln, IntLit(0, SInt)), Forall([]*Term{k}, Not(ex.mapHasNil(st, mt, v.T, k)))))
			return ctx.ret(scalar(ln, types.Typ[types.Int]))
		}
		if _, ok := ctx.cc.Args[0].Type().Underlying().(*types.Chan); ok {
			return ctx.ret(scalar(Select(st.get("Chlen", SArr(SRef, SInt)), v.T), types.Typ[types.Int]))
		}
		ex.fail("len of %s", typeKey(ctx.cc.Args[0].Type()))
	case "cap":
		r := Fresh("cap", SInt)
		if a[0].K == VSlice {
			st.assume(Ge(r, a[0].Len))
		}
		return ctx.ret(scalar(r, types.Typ[types.Int]))
	case "delete":
		mt := ctx.cc.Args[0].Type().Underlying().(*types.Map)
		// delete on a nil map is a no-op
		s2 := st
		ex.mapDeleteNilSafe(s2, mt, a[0].T, a[1].T)
		return ctx.ret(nil)
	case "clear":
		if mt, ok := ctx.cc.Args[0].Type().Underlying().(*types.Map); ok {
			ex.mapClear(st, mt, a[0].T)
			return ctx.ret(nil)
		}
		ex.havocReachable(st, a[0])
		return ctx.ret(nil)
	case "append":
		return ctx.ret(ex.appendOp(ctx))
	case "copy":
		ex.havocReachable(st, a[0])
		return ctx.ret(scalar(Fresh("copied", SInt), types.Typ[types.Int]))
	case "close":
		ch := a[0]
		ex.set(st, "Chclosed", Store(st.get("Chclosed", SArr(SRef, SBool)), ch.T, TTrue))
		st.notes = append(st.notes, "close")
		return ctx.ret(nil)
	case "panic":
		return []cont{{st: st, panicked: true, msg: "panic"}}
	case "print", "println":
		return ctx.ret(nil)
	case "min", "max":
		x, y := a[0].T, a[1].T
		var c *Term
		if x.Sort.Kind == SKInt {
			c = Le(x, y)
		} else {
			c = BVCmp("bvule", x, y)
		}
		if b.Name() == "min" {
			return ctx.ret(scalar(Ite(c, x, y), a[0].Ty))
		}
		return ctx.ret(scalar(Ite(c, y, x), a[0].Ty))
	case "ssa:wrapnilchk":
		ex.safetyCall(st, "nil", Neq(a[0].T, IntLit(0, a[0].T.Sort)), ctx.site)
		return ctx.ret(a[0])
	}
	ex.fail("builtin %s", b.Name())
	return nil
}

func (ex *Exec) mapDeleteNilSafe(st *State, mt *types.Map, ref, key *Term) {
	// A delete on the nil map does nothing; writes at ref 0 are harmless in the
	// model because reads mask ref 0 as empty.
	ex.mapDelete(st, mt, ref, key)
}

func (ex *Exec) mapClear(st *State, mt *types.Map, ref *Term) {
	dom, _ := mapNames(mt)
	ks := keySort(mt)
	d := st.get(dom, SArr(SRef, SArr(ks, SBool)))
	ex.set(st, dom, Store(d, ref, mk("constarr", "", SArr(ks, SBool), nil, nil, TFalse)))
	ln := ex.mapLenName(mt)
	ex.set(st, ln, Store(st.get(ln, SArr(SRef, SInt)), ref, IntLit(0, SInt)))
}

// appendOp models append as producing a fresh backing array holding the old
// elements followed by the new ones.
func (ex *Exec) appendOp(ctx *callCtx) *Val {
	st := ctx.st
	s, more := ctx.args[0], ctx.args[1]
	st0 := ctx.cc.Args[0].Type().Underlying().(*types.Slice)
	el := st0.Elem()
	ex.note("A-append: append yields a fresh backing array (no aliasing with the source slice)")
	r := ex.newRef(st, "append")
	if isByte(el) {
		var add *Term
		if more.K == VSlice {
			add = Ite(Eq(more.Len, IntLit(0, SInt)), StrLit(""), ex.bytesOf(st, more.Ref))
		} else {
			add = more.T // append([]byte, string...)
		}
		oldc := Ite(Eq(s.Len, IntLit(0, SInt)), StrLit(""), ex.bytesOf(st, s.Ref))
		nc := strCat(oldc, add)
		nl := Add(s.Len, slen(add))
		st.assume(Eq(slen(nc), nl))
		ex.setBytes(st, r, nc)
		return &Val{K: VSlice, Ref: r, Len: nl, Ty: s.Ty, Elem: el}
	}
	if more.K != VSlice {
		ex.fail("append of non-slice")
	}
	nl := Add(s.Len, more.Len)
	for _, l := range shapeLeaves(shapeOf(el), "") {
		n := "E|" + short(typeKey(el)) + "|" + l.path
		arr := st.get(n, SArr(SRef, SArr(SInt, l.sort)))
		oldE := Select(arr, s.Ref)
		addE := Select(arr, more.Ref)
		var ne *Term
		if more.Len.Op == "int" && more.Len.IVal.IsInt64() && more.Len.IVal.Int64() <= 4 {
			ne = oldE
			for i := int64(0); i < more.Len.IVal.Int64(); i++ {
				ne = Store(ne, Add(s.Len, IntLit(i, SInt)), Select(addE, IntLit(i, SInt)))
			}
		} else {
			ne = Fresh("appended", SArr(SInt, l.sort))
			j := BVar("j", SInt)
			st.assume(Forall([]*Term{j}, Eq(Select(ne, j), Ite(Lt(j, s.Len), Select(oldE, j), Select(addE, Sub(j, s.Len))))))
		}
		ex.setAt(st, n, Store(arr, r, ne), r)
	}
	return &Val{K: VSlice, Ref: r, Len: nl, Ty: s.Ty, Elem: el}
}

// freshenRefs replaces the reference components of a stub result by newly
// allocated references (for stubs declared freshresult).
func (ex *Exec) freshenRefs(st *State, v *Val) *Val {
	switch v.K {
	case VSlice:
		nv := *v
		nv.Ref = ex.newRef(st, "res")
		if isByte(v.Elem) {
			st.assume(Eq(slen(ex.bytesOf(st, nv.Ref)), nv.Len))
		}
		return &nv
	case VScalar:
		if v.T.Sort == SRef {
			nv := *v
			nv.T = ex.newRef(st, "res")
			return &nv
		}
	case VStruct, VTuple:
		nv := *v
		nv.Fs = nil
		for _, f := range v.Fs {
			nv.Fs = append(nv.Fs, ex.freshenRefs(st, f))
		}
		return &nv
	}
	return v
}

// tryEvalClause evaluates a callee clause at a call site; it returns nil when the
// clause refers to names that exist only inside the callee (fewer facts assumed: sound).
func (ex *Exec) tryEvalClause(cur, old *State, c *Clause, vars map[string]*Val, pkg *types.Package) (res *Term) {
	// a clause about the callee's own execution (which of its calls happened, what they returned) says nothing a
	// caller can use, and defined(x) would be evaluated against the caller's frame: such clauses are not assumed
	if strings.Contains(c.Src, "defined(") || strings.Contains(c.Src, "call_") || strings.Contains(c.Src, "first_") {
		return nil
	}
	defer func() {
		if r := recover(); r != nil {
			if se, ok := r.(specErr); ok {
				if strings.HasPrefix(se.msg, "unknown identifier") {
					if debugLoops {
						fmt.Fprintf(os.Stderr, "SKIP clause %s at call site: %s\n", c.Label, se.msg)
					}
					res = nil
					return
				}
				ex.fail("contract error at %s:%d (%s): %s", c.File, c.Line, c.Src, se.msg)
			}
			panic(r)
		}
	}()
	env := &Env{ex: ex, cur: cur, old: old, vars: vars, pkg: pkg}
	v := env.eval(c.E)
	if v.K != VScalar || v.T.Sort != SBool {
		ex.fail("contract clause at %s:%d is not boolean", c.File, c.Line)
	}
	return v.T
}
