package main

// Structural obligations: contracts decided by evaluation over go/types and
// the static call graph (backend "structural", never SMT).

import (
	"fmt"
	"go/constant"
	"go/types"
	"reflect"
	"sort"
	"strings"

	"golang.org/x/tools/go/ssa"
)

type StructResult struct {
	Name   string
	Tags   []string
	OK     bool
	Detail string
	Where  string
}

func (eng *Engine) lookupPkg(ctxPkg, name string) *types.Package {
	if p := eng.typesPkgs[name]; p != nil {
		return p
	}
	if cp := eng.typesPkgs[ctxPkg]; cp != nil {
		if cp.Name() == name {
			return cp
		}
		for _, imp := range cp.Imports() {
			if imp.Name() == name {
				return imp
			}
		}
	}
	var cand *types.Package
	for path, p := range eng.typesPkgs {
		if p.Name() == name {
			if strings.HasPrefix(path, modPath) {
				return p
			}
			cand = p
		}
	}
	return cand
}

func (eng *Engine) lookupObj(ctxPkg, qual string) types.Object {
	if i := strings.LastIndex(qual, "."); i >= 0 {
		p := eng.lookupPkg(ctxPkg, qual[:i])
		if p == nil {
			return nil
		}
		return p.Scope().Lookup(qual[i+1:])
	}
	if p := eng.typesPkgs[ctxPkg]; p != nil {
		return p.Scope().Lookup(qual)
	}
	return nil
}

// CheckStructural evaluates every structural declaration.
func (eng *Engine) CheckStructural() []*StructResult {
	var out []*StructResult
	for _, d := range eng.specs.Structs {
		if d.Kind == "guarded" {
			continue // becomes obligations of the functions that access the fields (exec.go, guardedAccess)
		}
		r := &StructResult{Tags: d.Tags, Where: fmt.Sprintf("%s:%d", d.File, d.Line)}
		func() {
			defer func() {
				if e := recover(); e != nil {
					r.OK = false
					r.Detail = fmt.Sprint("error: ", e)
				}
			}()
			switch d.Kind {
			case "layout":
				eng.checkLayout(d, r)
			case "pin":
				eng.checkPin(d, r)
			case "callers":
				eng.checkCallers(d, r)
			case "nocall":
				eng.checkNoCall(d, r)
			case "typeshape":
				eng.checkTypeShape(d, r)
			case "loopexits":
				eng.checkLoopExits(d, r)
			}
		}()
		out = append(out, r)
	}
	return out
}

// layout NAME pkg.Type { Field Type `tag`; ... }
func (eng *Engine) checkLayout(d *StructDecl, r *StructResult) {
	args := d.Args
	i := strings.Index(args, "{")
	j := strings.LastIndex(args, "}")
	if i < 0 || j < i {
		panic("layout needs { fields }")
	}
	head := strings.Fields(args[:i])
	tname := head[len(head)-1]
	r.Name = short(d.Pkg) + " layout " + strings.Join(head, " ")
	obj := eng.lookupObj(d.Pkg, tname)
	if obj == nil {
		r.Detail = "type " + tname + " not found"
		return
	}
	st, ok := obj.Type().Underlying().(*types.Struct)
	if !ok {
		r.Detail = tname + " is not a struct"
		return
	}
	var want []string
	for _, f := range strings.Split(args[i+1:j], ";") {
		if f = strings.Join(strings.Fields(f), " "); f != "" {
			want = append(want, f)
		}
	}
	var have []string
	for k := 0; k < st.NumFields(); k++ {
		f := st.Field(k)
		own := obj.Pkg()
		s := f.Name() + " " + short(types.TypeString(f.Type(), func(p *types.Package) string {
			if p == own {
				return ""
			}
			return p.Name()
		}))
		if tag := st.Tag(k); tag != "" {
			if jt, ok := reflect.StructTag(tag).Lookup("json"); ok {
				s += " json:" + jt
			}
			if jt, ok := reflect.StructTag(tag).Lookup("setec"); ok {
				s += " setec:" + jt
			}
		}
		have = append(have, s)
	}
	if strings.Join(want, ";") == strings.Join(have, ";") {
		r.OK = true
		r.Detail = strings.Join(have, "; ")
	} else {
		r.Detail = "want {" + strings.Join(want, "; ") + "} have {" + strings.Join(have, "; ") + "}"
	}
}

// pin NAME const pkg.Name == literal | pin NAME method pkg.Type.M exists|absent
func (eng *Engine) checkPin(d *StructDecl, r *StructResult) {
	f := strings.Fields(d.Args)
	r.Name = short(d.Pkg) + " pin " + d.Args
	if len(f) >= 4 && f[len(f)-4] == "const" && f[len(f)-2] == "==" {
		obj := eng.lookupObj(d.Pkg, f[len(f)-3])
		c, ok := obj.(*types.Const)
		if !ok {
			r.Detail = "constant not found"
			return
		}
		have := c.Val().ExactString()
		if c.Val().Kind() == constant.String {
			have = constant.StringVal(c.Val())
		}
		want := strings.Trim(f[len(f)-1], "\"")
		r.OK = have == want
		r.Detail = fmt.Sprintf("have %s want %s", have, want)
		return
	}
	if len(f) >= 3 && f[len(f)-3] == "method" {
		q := f[len(f)-2]
		i := strings.LastIndex(q, ".")
		obj := eng.lookupObj(d.Pkg, q[:i])
		if obj == nil {
			r.Detail = "type not found"
			return
		}
		ms := types.NewMethodSet(types.NewPointer(obj.Type()))
		found := false
		for k := 0; k < ms.Len(); k++ {
			if ms.At(k).Obj().Name() == q[i+1:] {
				found = true
			}
		}
		r.OK = found == (f[len(f)-1] == "exists")
		r.Detail = fmt.Sprintf("method present: %v", found)
		return
	}
	panic("pin: cannot interpret " + d.Args)
}

func (eng *Engine) moduleFuncs() []*ssa.Function {
	var fs []*ssa.Function
	for _, l := range eng.funcs {
		fs = append(fs, l...)
	}
	sort.Slice(fs, func(i, j int) bool { return fs[i].String() < fs[j].String() })
	return fs
}

// callersOf returns the module functions containing a call (static, go, defer)
// whose callee name matches target (short form, type args stripped).
func (eng *Engine) callersOf(target string) map[string]bool {
	out := map[string]bool{}
	for _, f := range eng.moduleFuncs() {
		for _, b := range f.Blocks {
			for _, in := range b.Instrs {
				ci, ok := in.(ssa.CallInstruction)
				if !ok {
					continue
				}
				name := ""
				if c := ci.Common().StaticCallee(); c != nil {
					name = short(funcKey(c))
				} else if ci.Common().IsInvoke() {
					name = "(" + short(typeKey(ci.Common().Value.Type())) + ")." + ci.Common().Method.Name()
				}
				if name == target {
					out[short(funcKey(f))] = true
				}
			}
		}
		// function values taken (not called) also count as uses
		for _, b := range f.Blocks {
			for _, in := range b.Instrs {
				if _, isDbg := in.(*ssa.DebugRef); isDbg {
					continue
				}
				for _, op := range in.Operands(nil) {
					if fn, ok := (*op).(*ssa.Function); ok && short(funcKey(fn)) == target {
						if ci, isCall := in.(ssa.CallInstruction); isCall && ci.Common().Value == *op {
							continue
						}
						out[short(funcKey(f))+" (value)"] = true
					}
				}
			}
		}
	}
	return out
}

// callers NAME callee only-from a, b, c   (or: only-from none)
func (eng *Engine) checkCallers(d *StructDecl, r *StructResult) {
	i := strings.Index(d.Args, " only-from ")
	if i < 0 {
		panic("callers: expected 'CALLEE only-from A, B'")
	}
	head := strings.Fields(d.Args[:i])
	callee := head[len(head)-1]
	r.Name = short(d.Pkg) + " callers " + strings.Join(head, " ")
	allowed := map[string]bool{}
	for _, a := range strings.Split(d.Args[i+len(" only-from "):], ",") {
		if a = strings.TrimSpace(a); a != "" && a != "none" {
			allowed[a] = true
		}
	}
	have := eng.callersOf(callee)
	// A caller that is not listed is acceptable when it is a helper without a contract of its own (it is
	// inlined into its callers) all of whose callers are acceptable in turn: extracting part of a listed
	// function into a helper does not change who, in the end, calls the callee.
	var okHelper func(h string, depth int) bool
	okHelper = func(h string, depth int) bool {
		if allowed[h] {
			return true
		}
		if depth > 4 || strings.HasSuffix(h, "(value)") || eng.hasContractShort(h) {
			return false
		}
		cs := eng.callersOf(h)
		if len(cs) == 0 {
			return false
		}
		for c := range cs {
			if !okHelper(c, depth+1) {
				return false
			}
		}
		return true
	}
	var extra, hv []string
	for h := range have {
		hv = append(hv, h)
		if !okHelper(h, 0) {
			extra = append(extra, h)
		}
	}
	sort.Strings(extra)
	sort.Strings(hv)
	r.OK = len(extra) == 0
	r.Detail = "callers: " + strings.Join(hv, ", ")
	if !r.OK {
		r.Detail = "unexpected callers: " + strings.Join(extra, ", ")
	}
}

// nocall NAME in PKGSUFFIX: callee1, callee2   -- no function of the package calls any of them
func (eng *Engine) checkNoCall(d *StructDecl, r *StructResult) {
	i := strings.Index(d.Args, ":")
	head := strings.Fields(d.Args[:i])
	r.Name = short(d.Pkg) + " nocall " + strings.Join(head, " ")
	pkgSuffix := head[len(head)-1]
	var bad []string
	for _, c := range strings.Split(d.Args[i+1:], ",") {
		c = strings.TrimSpace(c)
		if c == "" {
			continue
		}
		for caller := range eng.callersOf(c) {
			if strings.HasPrefix(strings.TrimLeft(caller, "(*"), pkgSuffix+".") {
				bad = append(bad, caller+" calls "+c)
			}
		}
	}
	sort.Strings(bad)
	r.OK = len(bad) == 0
	r.Detail = strings.Join(bad, "; ")
	if r.OK {
		r.Detail = "no such call in package " + pkgSuffix
	}
}

// typeshape NAME pkg.Type no-bytes-except Field1, Field2: no field other than those listed can carry bytes
func (eng *Engine) checkTypeShape(d *StructDecl, r *StructResult) {
	i := strings.Index(d.Args, " no-bytes-except")
	head := strings.Fields(d.Args[:i])
	r.Name = short(d.Pkg) + " typeshape " + strings.Join(head, " ")
	obj := eng.lookupObj(d.Pkg, head[len(head)-1])
	st := obj.Type().Underlying().(*types.Struct)
	allowed := map[string]bool{}
	for _, a := range strings.Split(d.Args[i+len(" no-bytes-except"):], ",") {
		allowed[strings.TrimSpace(a)] = true
	}
	var bad []string
	var carries func(t types.Type, depth int) bool
	carries = func(t types.Type, depth int) bool {
		if depth > 4 {
			return true
		}
		switch u := t.Underlying().(type) {
		case *types.Basic:
			return u.Info()&types.IsString != 0
		case *types.Slice:
			return carries(u.Elem(), depth+1) || isByte(u.Elem())
		case *types.Pointer:
			return carries(u.Elem(), depth+1)
		case *types.Struct:
			for k := 0; k < u.NumFields(); k++ {
				if carries(u.Field(k).Type(), depth+1) {
					return true
				}
			}
			return false
		case *types.Map, *types.Interface, *types.Array, *types.Chan:
			return true
		}
		return false
	}
	for k := 0; k < st.NumFields(); k++ {
		f := st.Field(k)
		if !allowed[f.Name()] && carries(f.Type(), 0) {
			bad = append(bad, f.Name())
		}
	}
	r.OK = len(bad) == 0
	r.Detail = "byte-carrying fields besides the allowed ones: " + strings.Join(bad, ", ")
	if r.OK {
		r.Detail = "only the listed fields can carry bytes"
	}
}

// loopexits NAME func-key loop N == K : the loop has exactly K exit edges (no early break/return)
func (eng *Engine) checkLoopExits(d *StructDecl, r *StructResult) {
	f := strings.Fields(d.Args)
	r.Name = short(d.Pkg) + " loopexits " + d.Args
	if len(f) < 5 {
		panic("loopexits: expected 'NAME FUNC loop N == K'")
	}
	key := qualifyKey(d.Pkg, f[len(f)-5])
	var n, k int
	fmt.Sscanf(f[len(f)-3], "%d", &n)
	fmt.Sscanf(f[len(f)-1], "%d", &k)
	fns := eng.funcs[key]
	if len(fns) == 0 {
		r.Detail = "function not found: " + key
		return
	}
	li := eng.loops(fns[0])
	for h, ord := range li.heads {
		if ord != n {
			continue
		}
		exits := 0
		var where []string
		for b := range li.body[h] {
			for _, s := range b.Succs {
				if !li.body[h][s] {
					exits++
					where = append(where, fmt.Sprintf("block %d -> %d", b.Index, s.Index))
				}
			}
			if len(b.Succs) == 0 {
				exits++
				where = append(where, fmt.Sprintf("block %d returns/panics", b.Index))
			}
		}
		sort.Strings(where)
		r.OK = exits == k
		r.Detail = fmt.Sprintf("%d exit edges (%s), want %d", exits, strings.Join(where, "; "), k)
		return
	}
	r.Detail = "loop not found"
}

// hasContractShort: does a function, named as callersOf names callers, have a contract of its own?
func (eng *Engine) hasContractShort(name string) bool {
	for k, fc := range eng.specs.Funcs {
		if fc != nil && short(k) == name {
			return true
		}
	}
	return false
}

// guarded NAME Type: F1, F2 by path.to.Mutex of Owner except fn1, fn2
// Lock-set discipline as a contract: in every function under contract (other than the listed ones, where
// the owner is not yet shared or the caller holds the lock), an access to one of the fields must happen
// while the mutex of the owner value in scope (a parameter, receiver or captured variable of type *Owner)
// is held. Each access becomes an obligation of kind "guarded".
type guardDecl struct {
	tags    []string
	label   string
	pkg     string
	typ     string
	fields  map[string]bool
	lock    string
	owner   string
	except  map[string]bool
	src     string
}

func (eng *Engine) guards() []*guardDecl {
	if eng.guardCache != nil {
		return eng.guardCache
	}
	eng.guardCache = []*guardDecl{}
	for _, d := range eng.specs.Structs {
		if d.Kind != "guarded" {
			continue
		}
		args := d.Args
		g := &guardDecl{tags: d.Tags, pkg: d.Pkg, fields: map[string]bool{}, except: map[string]bool{}, src: args}
		i := strings.Index(args, ":")
		j := strings.Index(args, " by ")
		k := strings.Index(args, " of ")
		if i < 0 || j < i || k < j {
			panic("guarded: expected 'NAME Type: F1, F2 by lock.path of Owner [except f, g]'")
		}
		head := strings.Fields(args[:i])
		g.typ = head[len(head)-1]
		g.label = strings.Join(head[:len(head)-1], " ")
		for _, f := range strings.Split(args[i+1:j], ",") {
			g.fields[strings.TrimSpace(f)] = true
		}
		g.lock = strings.TrimSpace(args[j+4 : k])
		rest := args[k+4:]
		if e := strings.Index(rest, " except "); e >= 0 {
			for _, f := range strings.Split(rest[e+8:], ",") {
				g.except[strings.TrimSpace(f)] = true
			}
			rest = rest[:e]
		}
		g.owner = strings.TrimSpace(rest)
		eng.guardCache = append(eng.guardCache, g)
	}
	return eng.guardCache
}
