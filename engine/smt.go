package main

// Query construction: generator-side skolemisation and quantifier
// instantiation (quantifier-free first), quantified fallback, solver portfolio.

import (
	"bytes"
	"context"
	"fmt"
	"os"
	"os/exec"
	"path/filepath"
	"sort"
	"strings"
	"sync"
	"time"
)

type SolveResult struct {
	Status   string // "unsat", "sat", "unknown"
	Solver   string
	Stage    string // "qf" or "quant"
	Seconds  float64
	Model    string // raw solver output for sat
	Values   map[string]string
	QFScript string
	Reason   string
	Retried  bool // decided (or given up) only after the second, longer attempt
}

// ---------------------------------------------------------------- instantiation

type instantiator struct {
	ground   map[string][]*Term // sort key -> ground terms
	byHead   map[string][]*Term // head key -> ground terms (for pattern matching)
	skolems  map[string]*Term
	maxPer   int
	maxProd  int
	overflow bool
	patCache map[*Term][]*Term
}

func sortKey(s *Sort) string { return s.Name + "#" + s.Class }

func headKey(t *Term) string {
	switch t.Op {
	case "app":
		return "app|" + t.Name
	case "select":
		return "select|" + t.Args[0].Sort.Name
	case "store":
		return "store|" + t.Sort.Name
	}
	return ""
}

// collectGround gathers the ground (bound-variable free) subterms, by sort
// and by head symbol. For select over a store chain it also adds the selects on
// the underlying arrays (read-over-write instances).
func collectGround(ts []*Term) (map[string][]*Term, map[string][]*Term) {
	bySort := map[string][]*Term{}
	byHead := map[string][]*Term{}
	seen := map[*Term]bool{}
	var add func(t *Term)
	var rec func(t *Term)
	add = func(t *Term) {
		if t.fv {
			return
		}
		if hk := headKey(t); hk != "" {
			byHead[hk] = append(byHead[hk], t)
		}
		if t.Sort.Kind == SKBool {
			return
		}
		if t.size > 60 || (t.Sort.Kind == SKArray && t.size > 12) {
			return
		}
		k := sortKey(t.Sort)
		bySort[k] = append(bySort[k], t)
	}
	rec = func(t *Term) {
		if seen[t] {
			return
		}
		seen[t] = true
		for _, a := range t.Args {
			rec(a)
		}
		add(t)
		if t.Op == "select" && !t.fv {
			arr := t.Args[0]
			for arr.Op == "store" {
				arr = arr.Args[0]
				v := Select(arr, t.Args[1])
				if !seen[v] {
					rec(v)
				}
			}
		}
	}
	for _, t := range ts {
		rec(t)
	}
	for k := range bySort {
		l := bySort[k]
		sort.SliceStable(l, func(i, j int) bool {
			if l[i].size != l[j].size {
				return l[i].size < l[j].size
			}
			return l[i].id < l[j].id
		})
		bySort[k] = l
	}
	return bySort, byHead
}

// patterns returns the subterms of body usable as triggers for vars.
func (in *instantiator) patterns(q *Term) []*Term {
	if p, ok := in.patCache[q]; ok {
		return p
	}
	own := map[*Term]bool{}
	for _, v := range q.Vars {
		own[v] = true
	}
	var out []*Term
	seen := map[*Term]bool{}
	// onlyOwn reports whether all bound variables in t belong to q
	var onlyOwn func(t *Term) bool
	onlyOwn = func(t *Term) bool {
		if !t.fv {
			return true
		}
		if t.Op == "var" {
			return own[t]
		}
		if t.Op == "forall" || t.Op == "exists" {
			return false
		}
		for _, a := range t.Args {
			if !onlyOwn(a) {
				return false
			}
		}
		return true
	}
	var rec func(t *Term)
	rec = func(t *Term) {
		if seen[t] || !t.fv {
			return
		}
		seen[t] = true
		if headKey(t) != "" && onlyOwn(t) {
			out = append(out, t)
		}
		for _, a := range t.Args {
			rec(a)
		}
	}
	rec(q.Args[0])
	in.patCache[q] = out
	return out
}

func matchTerm(p, g *Term, own map[*Term]bool, sub map[*Term]*Term) bool {
	if p == g {
		return !p.fv
	}
	if p.Op == "var" {
		if !own[p] {
			return false
		}
		if p.Sort.Name != g.Sort.Name {
			return false
		}
		if b, ok := sub[p]; ok {
			return b == g
		}
		sub[p] = g
		return true
	}
	if !p.fv {
		return false
	}
	if p.Op != g.Op || p.Name != g.Name || len(p.Args) != len(g.Args) || p.Sort.Name != g.Sort.Name {
		return false
	}
	for i := range p.Args {
		if !matchTerm(p.Args[i], g.Args[i], own, sub) {
			return false
		}
	}
	return true
}

// candidates computes per-variable instantiation candidates for quantifier q.
func (in *instantiator) candidates(q *Term) [][]*Term {
	own := map[*Term]bool{}
	for _, v := range q.Vars {
		own[v] = true
	}
	cset := map[*Term]map[*Term]bool{}
	for _, v := range q.Vars {
		cset[v] = map[*Term]bool{}
	}
	for _, p := range in.patterns(q) {
		if p.Op == "store" {
			continue
		}
		for _, g := range in.byHead[headKey(p)] {
			sub := map[*Term]*Term{}
			if matchTerm(p, g, own, sub) {
				for v, t := range sub {
					cset[v][t] = true
				}
			}
		}
		// select(P, idx) with ground store chain P: selects on any array of the chain match
		if p.Op == "select" && !p.Args[0].fv && p.Args[0].Op == "store" {
			chain := map[*Term]bool{}
			for a := p.Args[0]; ; a = a.Args[0] {
				chain[a] = true
				if a.Op != "store" {
					break
				}
			}
			for _, g := range in.byHead[headKey(p)] {
				if chain[g.Args[0]] && g.Args[0] != p.Args[0] {
					sub := map[*Term]*Term{}
					if matchTerm(p.Args[1], g.Args[1], own, sub) {
						for v, t := range sub {
							cset[v][t] = true
						}
					}
				}
			}
		}
		// select(P, x): indices written into an array matching P are candidates for x
		if p.Op == "select" && p.Args[1].Op == "var" && own[p.Args[1]] {
			for _, g := range in.byHead["store|"+p.Args[0].Sort.Name] {
				sub := map[*Term]*Term{}
				if p.Args[0] == g || matchTerm(p.Args[0], g, own, sub) {
					for a := g; a.Op == "store"; a = a.Args[0] {
						if !a.Args[1].fv {
							cset[p.Args[1]][a.Args[1]] = true
						}
					}
					for v, t := range sub {
						cset[v][t] = true
					}
				}
			}
		}
	}
	out := make([][]*Term, len(q.Vars))
	for i, v := range q.Vars {
		var l []*Term
		for t := range cset[v] {
			l = append(l, t)
		}
		sort.Slice(l, func(a, b int) bool {
			if l[a].size != l[b].size {
				return l[a].size < l[b].size
			}
			return l[a].id < l[b].id
		})
		if len(l) == 0 {
			// no trigger matched: fall back to a few terms of the right sort
			l = in.ground[sortKey(v.Sort)]
			if len(l) > 6 {
				l = l[:6]
			}
		}
		if len(l) > in.maxPer {
			in.overflow = true
			l = l[:in.maxPer]
		}
		out[i] = l
		if debugInst {
			var cs []string
			for _, t := range l {
				cs = append(cs, t.String())
			}
			fmt.Fprintf(os.Stderr, "INST %s %s (patterns %d): %s\n", q.Op, v.Name, len(in.patterns(q)), strings.Join(cs, " ; "))
		}
	}
	return out
}

func (in *instantiator) skolem(q *Term, v *Term, ctxKey string) *Term {
	k := fmt.Sprintf("%d/%s/%s", q.id, v.Name, ctxKey)
	if s, ok := in.skolems[k]; ok {
		return s
	}
	s := Fresh("sk_"+v.Name, v.Sort)
	in.skolems[k] = s
	return s
}

var quantMemo sync.Map
var statMu sync.Mutex
var statInst, statSolve float64
var debugInst = os.Getenv("GOVC_DEBUG_INST") != ""

func containsQuant(t *Term) bool {
	if v, ok := quantMemo.Load(t); ok {
		return v.(bool)
	}
	r := t.Op == "forall" || t.Op == "exists"
	if !r && t.Sort == SBool {
		for _, a := range t.Args {
			if a.Sort == SBool && containsQuant(a) {
				r = true
				break
			}
		}
	}
	quantMemo.Store(t, r)
	return r
}

// weaken returns a quantifier-free formula f with t => f (pos) or f => t
// (!pos), up to skolemisation.
func (in *instantiator) weaken(t *Term, pos bool, ctxKey string) *Term {
	if t.Sort != SBool || !containsQuant(t) {
		return t
	}
	switch t.Op {
	case "not":
		return Not(in.weaken(t.Args[0], !pos, ctxKey))
	case "and", "or":
		args := make([]*Term, len(t.Args))
		for i, a := range t.Args {
			args[i] = in.weaken(a, pos, ctxKey)
		}
		if t.Op == "and" {
			return And(args...)
		}
		return Or(args...)
	case "=>":
		return Implies(in.weaken(t.Args[0], !pos, ctxKey), in.weaken(t.Args[1], pos, ctxKey))
	case "=":
		a, b := t.Args[0], t.Args[1]
		return And(in.weaken(Implies(a, b), pos, ctxKey), in.weaken(Implies(b, a), pos, ctxKey))
	case "ite":
		c, a, b := t.Args[0], t.Args[1], t.Args[2]
		return And(in.weaken(Implies(c, a), pos, ctxKey), in.weaken(Implies(Not(c), b), pos, ctxKey))
	case "forall", "exists":
		universal := (t.Op == "forall") == pos
		if !universal {
			m := map[*Term]*Term{}
			for _, v := range t.Vars {
				m[v] = in.skolem(t, v, ctxKey)
			}
			return in.weaken(Subst(t.Args[0], m), pos, ctxKey)
		}
		cands := in.candidates(t)
		total := 1
		for i := range cands {
			total *= len(cands[i])
		}
		for total > in.maxProd {
			in.overflow = true
			li := 0
			for i := range cands {
				if len(cands[i]) > len(cands[li]) {
					li = i
				}
			}
			if len(cands[li]) <= 1 {
				break
			}
			total = total / len(cands[li])
			cands[li] = cands[li][:len(cands[li])*2/3]
			total *= len(cands[li])
		}
		var parts []*Term
		idx := make([]int, len(t.Vars))
		if total > 0 {
			for {
				m := map[*Term]*Term{}
				var kb strings.Builder
				kb.WriteString(ctxKey)
				for i, v := range t.Vars {
					m[v] = cands[i][idx[i]]
					fmt.Fprintf(&kb, ",%d", m[v].id)
				}
				parts = append(parts, in.weaken(Subst(t.Args[0], m), pos, kb.String()))
				j := len(idx) - 1
				for j >= 0 {
					idx[j]++
					if idx[j] < len(cands[j]) {
						break
					}
					idx[j] = 0
					j--
				}
				if j < 0 {
					break
				}
			}
		}
		if pos {
			return And(parts...)
		}
		return Or(parts...)
	}
	return t
}

// instantiate produces quantifier-free consequences of the asserts.
func instantiate(asserts []*Term, rounds, maxPer, maxProd int) ([]*Term, bool) {
	in := &instantiator{skolems: map[string]*Term{}, maxPer: maxPer, maxProd: maxProd, patCache: map[*Term][]*Term{}}
	in.ground, in.byHead = collectGround(asserts)
	var out []*Term
	prev := -1
	for r := 0; r < rounds; r++ {
		out = out[:0]
		for _, a := range asserts {
			out = append(out, in.weaken(a, true, ""))
		}
		all := append(append([]*Term{}, asserts...), out...)
		g, h := collectGround(all)
		n := 0
		for _, l := range h {
			n += len(l)
		}
		for _, l := range g {
			n += len(l)
		}
		in.ground, in.byHead = g, h
		if n == prev {
			break
		}
		prev = n
	}
	return out, in.overflow
}

// ---------------------------------------------------------------- solving

var (
	smtDir     string
	smtDirOnce sync.Once
	keepSMT    = os.Getenv("GOVC_KEEP_SMT") != ""
	queryCount int
	queryMu    sync.Mutex
)

func smtTmpDir() string {
	smtDirOnce.Do(func() {
		d, err := os.MkdirTemp("", "govc-smt-")
		if err != nil {
			panic(err)
		}
		smtDir = d
	})
	return smtDir
}

func cleanupSMT() {
	if smtDir != "" && !keepSMT {
		os.RemoveAll(smtDir)
	}
}

type solverSpec struct {
	name string
	argv func(file string, timeoutS int, seed int) []string
	pre  func(script string) string
}

var solvers = map[string]solverSpec{
	"z3-5.1.0": {name: "z3-5.1.0", argv: func(f string, t, seed int) []string {
		return []string{"z3-new", fmt.Sprintf("-T:%d", t), fmt.Sprintf("smt.random_seed=%d", seed), f}
	}},
	"z3-4.8.12": {name: "z3-4.8.12", argv: func(f string, t, seed int) []string {
		return []string{"/usr/bin/z3", fmt.Sprintf("-T:%d", t), fmt.Sprintf("smt.random_seed=%d", seed), f}
	}},
	"cvc5": {name: "cvc5", argv: func(f string, t, seed int) []string {
		return []string{"cvc5", "--full-saturate-quant", fmt.Sprintf("--tlimit=%d", t*1000), fmt.Sprintf("--seed=%d", seed), f}
	}, pre: func(s string) string {
		return strings.Replace(s, "(set-option :produce-models true)\n", "(set-option :produce-models true)\n(set-logic ALL)\n", 1)
	}},
}

func runSolver(ctx context.Context, sp solverSpec, script string, tag string, timeoutS, seed int) (status, out string, secs float64) {
	if sp.pre != nil {
		script = sp.pre(script)
		if !strings.Contains(script, "(set-logic") {
			script = "(set-logic ALL)\n" + script
		}
	}
	queryMu.Lock()
	queryCount++
	n := queryCount
	queryMu.Unlock()
	f := filepath.Join(smtTmpDir(), fmt.Sprintf("q%05d_%s_%s.smt2", n, tag, sp.name))
	if err := os.WriteFile(f, []byte(script), 0644); err != nil {
		return "unknown", err.Error(), 0
	}
	if !keepSMT {
		defer os.Remove(f)
	}
	argv := sp.argv(f, timeoutS, seed)
	cctx, cancel := context.WithTimeout(ctx, time.Duration(timeoutS+2)*time.Second)
	defer cancel()
	cmd := exec.CommandContext(cctx, argv[0], argv[1:]...)
	var buf bytes.Buffer
	cmd.Stdout = &buf
	cmd.Stderr = &buf
	t0 := time.Now()
	cmd.Run()
	secs = time.Since(t0).Seconds()
	out = buf.String()
	first := strings.TrimSpace(strings.SplitN(out, "\n", 2)[0])
	switch first {
	case "unsat", "sat":
		return first, out, secs
	}
	if first == "" || strings.HasPrefix(first, "timeout") || first == "unknown" {
		return "unknown", out, secs
	}
	return "unknown", out, secs
}

var solverSem = make(chan struct{}, 16)

// Solve decides hyps |- goal. wantValues are ground scalar terms whose model
// values are requested when the answer is sat.
func Solve(name string, hyps []*Term, goal *Term, timeoutS, seed int, thorough bool, qfOnly bool) SolveResult {
	asserts := append(append([]*Term{}, hyps...), Not(goal))
	tag := sanitizeTag(name)
	t0 := time.Now()
	// stage 0: drop every quantified hypothesis (sound: fewer hypotheses); many
	// safety and frame goals follow from the ground path facts alone
	if !qfOnly {
		var ground []*Term
		nq := 0
		for _, a := range asserts {
			if containsQuant(a) {
				nq++
				continue
			}
			ground = append(ground, a)
		}
		if nq > 0 && !containsQuant(goal) {
			gs := Script(ground, "", false)
			solverSem <- struct{}{}
			st0, _, _ := runSolver(context.Background(), solvers["z3-5.1.0"], gs, tag+"_g", 2, seed)
			<-solverSem
			if st0 == "unsat" {
				return SolveResult{Status: "unsat", Solver: "z3-5.1.0", Stage: "ground", Seconds: time.Since(t0).Seconds()}
			}
		}
	}
	// stage 1: quantifier-free by instantiation
	ti := time.Now()
	qf, _ := instantiate(asserts, 6, 24, 400)
	qfScript := Script(qf, "", true)
	statMu.Lock()
	statInst += time.Since(ti).Seconds()
	statMu.Unlock()
	ts := time.Now()
	defer func() {
		statMu.Lock()
		statSolve += time.Since(ts).Seconds()
		statMu.Unlock()
	}()
	solverSem <- struct{}{}
	st, out, _ := runSolver(context.Background(), solvers["z3-5.1.0"], qfScript, tag+"_qf", timeoutS, seed)
	<-solverSem
	if st == "unsat" {
		res := SolveResult{Status: "unsat", Solver: "z3-5.1.0", Stage: "qf", Seconds: time.Since(t0).Seconds()}
		if thorough {
			// confirmation by a second solver
			solverSem <- struct{}{}
			st2, _, _ := runSolver(context.Background(), solvers["z3-4.8.12"], qfScript, tag+"_qf2", timeoutS, seed)
			<-solverSem
			if st2 != "unsat" {
				solverSem <- struct{}{}
				st2, _, _ = runSolver(context.Background(), solvers["cvc5"], qfScript, tag+"_qf3", timeoutS, seed)
				<-solverSem
			}
			if st2 == "unsat" {
				res.Solver += "+confirmed"
			} else {
				res.Solver += "+single-solver"
			}
		}
		return res
	}
	qfOut := out
	qfStatus := st
	if qfOnly {
		return SolveResult{Status: qfStatus, Solver: "z3-5.1.0", Stage: "qf", Seconds: time.Since(t0).Seconds(), Model: qfOut, QFScript: qfScript}
	}
	anyQuant := false
	for _, a := range asserts {
		if containsQuant(a) {
			anyQuant = true
			break
		}
	}
	if !anyQuant {
		if qfStatus == "unknown" {
			// try the other solvers on the same QF script
			type r struct {
				st, out, name string
			}
			ch := make(chan r, 2)
			ctx, cancel := context.WithCancel(context.Background())
			for _, sn := range []string{"z3-4.8.12", "cvc5"} {
				go func(sn string) {
					solverSem <- struct{}{}
					s, o, _ := runSolver(ctx, solvers[sn], qfScript, tag+"_qfo", timeoutS, seed)
					<-solverSem
					ch <- r{s, o, sn}
				}(sn)
			}
			best := r{"unknown", qfOut, "z3-5.1.0"}
			for i := 0; i < 2; i++ {
				x := <-ch
				if x.st != "unknown" && best.st == "unknown" {
					best = x
					cancel()
				}
			}
			cancel()
			return SolveResult{Status: best.st, Solver: best.name, Stage: "qf", Seconds: time.Since(t0).Seconds(), Model: best.out, QFScript: qfScript}
		}
		return SolveResult{Status: qfStatus, Solver: "z3-5.1.0", Stage: "qf", Seconds: time.Since(t0).Seconds(), Model: qfOut, QFScript: qfScript}
	}
	// stage 2: quantified, raced
	qScript := Script(asserts, "", true)
	type r struct {
		st, out, name string
	}
	ch := make(chan r, 3)
	ctx, cancel := context.WithCancel(context.Background())
	names := []string{"z3-5.1.0", "z3-4.8.12", "cvc5"}
	for _, sn := range names {
		go func(sn string) {
			solverSem <- struct{}{}
			s, o, _ := runSolver(ctx, solvers[sn], qScript, tag+"_q", timeoutS, seed)
			<-solverSem
			ch <- r{s, o, sn}
		}(sn)
	}
	best := r{"unknown", "", ""}
	for range names {
		x := <-ch
		if x.st == "unsat" && best.st != "unsat" {
			best = x
			cancel()
		} else if x.st == "sat" && best.st == "unknown" {
			best = x
		}
	}
	cancel()
	res := SolveResult{Status: best.st, Solver: best.name, Stage: "quant", Seconds: time.Since(t0).Seconds(), QFScript: qfScript}
	if best.st != "unsat" {
		// prefer the QF candidate model (complete over ground terms)
		if qfStatus == "sat" {
			res.Model = qfOut
			if best.st == "unknown" {
				res.Reason = "quantifier-free instance is sat; quantified query undecided by all solvers"
			}
		} else {
			res.Model = best.out
		}
	}
	return res
}

func sanitizeTag(s string) string {
	var sb strings.Builder
	for _, c := range s {
		if c >= 'a' && c <= 'z' || c >= 'A' && c <= 'Z' || c >= '0' && c <= '9' {
			sb.WriteRune(c)
		} else {
			sb.WriteByte('_')
		}
		if sb.Len() > 60 {
			break
		}
	}
	return sb.String()
}

// GetValues re-runs a sat QF script asking for the values of terms.
func GetValues(qfScript string, terms map[string]*Term, timeoutS int) map[string]string {
	if len(terms) == 0 {
		return nil
	}
	var names []string
	for n := range terms {
		names = append(names, n)
	}
	sort.Strings(names)
	var sb strings.Builder
	body := strings.Replace(qfScript, "(get-model)\n", "", 1)
	sb.WriteString(body)
	out := map[string]string{}
	for _, n := range names {
		var b strings.Builder
		printTerm(&b, terms[n], nil, 0)
		fmt.Fprintf(&sb, "(echo \"@@%s\")\n(get-value (%s))\n", n, b.String())
	}
	solverSem <- struct{}{}
	st, o, _ := runSolver(context.Background(), solvers["z3-5.1.0"], sb.String(), "getvalue", timeoutS, 0)
	<-solverSem
	if st != "sat" {
		return out
	}
	parts := strings.Split(o, "@@")
	for _, p := range parts[1:] {
		nl := strings.IndexByte(p, '\n')
		if nl < 0 {
			continue
		}
		name := strings.Trim(p[:nl], "\" \r")
		val := strings.TrimSpace(p[nl+1:])
		// val looks like ((term value))
		if i := strings.LastIndex(val, " "); i >= 0 && strings.HasSuffix(val, "))") {
			v := parseLastSexp(val)
			out[name] = v
		}
	}
	return out
}

// parseLastSexp extracts the value from "((term value))".
func parseLastSexp(s string) string {
	s = strings.TrimSpace(s)
	if !strings.HasPrefix(s, "((") || !strings.HasSuffix(s, "))") {
		return s
	}
	s = s[2 : len(s)-2]
	// value is the last balanced s-expression or atom
	depth := 0
	for i := len(s) - 1; i >= 0; i-- {
		switch s[i] {
		case ')':
			depth++
		case '(':
			depth--
			if depth == 0 {
				return strings.TrimSpace(s[i:])
			}
		case ' ', '\n':
			if depth == 0 {
				return strings.TrimSpace(s[i+1:])
			}
		}
	}
	return s
}
