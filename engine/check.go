package main

// The per-property check: select the functions whose contracts carry the
// property's tag, generate and discharge their obligations, evaluate structural
// contracts, write evidence, report violations with replay files.

import (
	"encoding/json"
	"flag"
	"fmt"
	"os"
	"path/filepath"
	"sort"
	"strconv"
	"strings"
	"time"

	"golang.org/x/tools/go/ssa"
)

type propConfig struct {
	Level       string   `json:"level"`
	NotDecided  []string `json:"not_decided"`
	Assumptions []string `json:"assumptions"`
	Bounded     []string `json:"bounded_standins"`
}

type knownFinding struct {
	Property   string `json:"property"`
	Obligation string `json:"obligation"`
	What       string `json:"what"`
}

type knownFile struct {
	Known []knownFinding `json:"known"`
	Fixed []string       `json:"fixed"`
}

func contractTags(fc *FuncContract) map[string]bool {
	t := map[string]bool{}
	add := func(c *Clause) {
		for _, x := range c.Tags {
			t[x] = true
		}
	}
	for _, c := range fc.Requires {
		add(c)
	}
	for _, c := range fc.Ensures {
		add(c)
	}
	for _, a := range fc.AtCalls {
		add(a.C)
	}
	for _, l := range fc.Loops {
		for _, c := range l.Invariants {
			add(c)
		}
		for _, c := range l.Progress {
			add(c)
		}
	}
	if fc.Panics != nil {
		add(fc.Panics)
	}
	return t
}

func hasTag(tags []string, p string) bool {
	for _, t := range tags {
		if t == p {
			return true
		}
	}
	return false
}

type oblReport struct {
	Name    string            `json:"obligation"`
	Kind    string            `json:"kind"`
	Func    string            `json:"function"`
	Where   string            `json:"where"`
	Clause  string            `json:"clause,omitempty"`
	Path    string            `json:"path"`
	Status  string            `json:"status"`
	Solver  string            `json:"solver"`
	Stage   string            `json:"stage"`
	Seconds float64           `json:"seconds"`
	Values  map[string]string `json:"model_values,omitempty"`
	Reason  string            `json:"reason,omitempty"`
	Model   string            `json:"solver_output,omitempty"`
}

func checkMain(args []string) {
	fs := flag.NewFlagSet("check", flag.ExitOnError)
	repo := fs.String("repo", "/repo", "repository root")
	verif := fs.String("verif", "/verif", "verification root")
	prop := fs.String("property", "", "property id")
	tier := fs.String("tier", "", "quick or thorough")
	stubsDir := fs.String("stubs", "", "stub directory (default <verif>/stubs)")
	writeExpected := fs.Bool("write-expected", false, "write expected/<property>.obl from this run")
	fs.Parse(args)
	if *prop == "" {
		fmt.Fprintln(os.Stderr, "check: -property required")
		os.Exit(2)
	}
	if *tier == "" {
		*tier = os.Getenv("VERIF_TIER")
	}
	if *tier != "thorough" {
		*tier = "quick"
	}
	seed := 0
	if s := os.Getenv("VERIF_SEED"); s != "" {
		if n, err := strconv.Atoi(s); err == nil {
			seed = n
		}
	}
	t0 := time.Now()
	defer cleanupSMT()
	// read-only inputs (pins, known findings, property notes) live with the engine; results may go elsewhere
	home := os.Getenv("VERIF_HOME")
	if home == "" {
		home = *verif
	}
	baseLocalsDir = home
	evPath := filepath.Join(*verif, "evidence", *prop+".json")
	os.MkdirAll(filepath.Dir(evPath), 0755)
	os.Remove(evPath)
	fatal := func(msg string) {
		// the property is not established: report as a violation of the check itself
		rp := writeReplay(*verif, *prop, "engine", map[string]any{"property": *prop, "error": msg, "note": "the verifier could not run; no obligation was decided"})
		writeEvidence(evPath, *prop, *tier, seed, nil, nil, nil, []string{"engine failure: " + msg}, time.Since(t0).Seconds(), 1, nil, nil)
		fmt.Printf("VIOLATION property=%s replay=%s no-failing-input-found\n", *prop, rp)
		fmt.Println("check failed:", msg)
		os.Exit(1)
	}
	eng, err := Load(*repo, []string{"./..."})
	if err != nil {
		fatal("load: " + err.Error())
	}
	if *stubsDir == "" {
		*stubsDir = filepath.Join(*verif, "stubs")
	}
	if err := eng.LoadStubs(*stubsDir); err != nil {
		fatal("stubs: " + err.Error())
	}
	eng.indexFuncs()
	eng.seed = seed
	eng.timeoutS = 10
	if *tier == "thorough" {
		eng.timeoutS = 60
		eng.thorough = true
	}
	var cfg propConfig
	if b, err := os.ReadFile(filepath.Join(home, "props", *prop+".json")); err == nil {
		json.Unmarshal(b, &cfg)
	}
	var axioms []*Term
	func() {
		defer func() {
			if r := recover(); r != nil {
				fatal(fmt.Sprint("axioms: ", r))
			}
		}()
		axioms = eng.axiomTerms(&Exec{eng: eng})
	}()
	// select functions
	var keys []string
	for k, fc := range eng.specs.Funcs {
		if fc.Trusted || !strings.HasPrefix(strings.TrimLeft(k, "(*"), modPath) {
			continue
		}
		if contractTags(fc)[*prop] {
			keys = append(keys, k)
		}
	}
	sort.Strings(keys)
	// Dependency closure: the proof of a tagged clause assumes the contracts of the functions it calls. Every
	// in-module function under contract that a selected function calls (transitively; helpers without a
	// contract are looked through) is verified too, with ALL its clauses: if one of them no longer holds, the
	// property's proof rests on a false premise.
	direct := map[string]bool{}
	for _, k := range keys {
		direct[k] = true
	}
	if os.Getenv("GOVC_NO_CLOSURE") == "" {
		keys = eng.contractClosure(keys)
	}
	var reports []*FuncReport
	var obls []*Obligation
	var engineErrors []string
	assumed := map[string]bool{}
	var funcsUnder []string
	for _, k := range keys {
		fc := eng.specs.Funcs[k]
		fns := eng.funcs[k]
		if len(fns) == 0 {
			if i := strings.LastIndex(k, "$"); i > 0 && fc.Inline && len(fc.Ensures) == 0 && len(eng.funcs[k[:i]]) > 0 {
				// an inlined closure that no longer exists while its parent does: its loop contracts are
				// offered to loops that moved into helpers of the parent (exec.go, orphanSpecFor)
				continue
			}
			engineErrors = append(engineErrors, "contract for "+short(k)+": no such function in the working tree")
			continue
		}
		if fc.Inline {
			continue // verified where it is inlined
		}
		for _, f := range fns {
			if f.TypeParams().Len() > 0 && len(f.TypeArgs()) == 0 && len(fns) > 1 {
				continue // generic body: its instances are verified instead
			}
			rep := eng.VerifyFunc(f)
			reports = append(reports, rep)
			funcsUnder = append(funcsUnder, rep.Func)
			if rep.Error != "" {
				engineErrors = append(engineErrors, rep.Func+": "+rep.Error)
				continue
			}
			for _, a := range rep.Assumed {
				assumed[a] = true
			}
			for _, o := range rep.Obligations {
				// every clause of a function the property touches is part of its check: the clauses tagged with the
				// property (and the untagged safety obligations) of a tagged function are its pinned top level;
				// the function's other clauses are premises the tagged ones were proved against at its call sites
				o.Dep = !(direct[k] && (len(o.Tags) == 0 || hasTag(o.Tags, *prop)))
				if os.Getenv("GOVC_TAGGED_ONLY") != "" && o.Dep && direct[k] {
					continue
				}
				obls = append(obls, o)
			}
		}
	}
	eng.SolveAll(obls, axioms)
	renameNotes.Range(func(k, _ any) bool {
		assumed["A-rename: "+k.(string)+" (resolved by type and declaration order against expected/locals.json)"] = true
		fmt.Println("NOTE: renamed local resolved:", k.(string))
		return true
	})
	// structural
	var structs []*StructResult
	for _, r := range eng.CheckStructural() {
		if hasTag(r.Tags, *prop) {
			structs = append(structs, r)
		}
	}
	// known findings
	var kf knownFile
	if b, err := os.ReadFile(filepath.Join(home, "known_findings.json")); err == nil {
		json.Unmarshal(b, &kf)
	}
	known := map[string]knownFinding{}
	for _, k := range kf.Known {
		if k.Property == *prop {
			known[k.Obligation] = k
		}
	}
	// verdicts
	failures := map[string][]*Obligation{}
	var failOrder []string
	total, discharged := 0, 0
	backends := map[string]int{}
	solverSecs := 0.0
	names := map[string]bool{}
	for _, o := range obls {
		if o.Cover {
			continue
		}
		names[o.Name] = true
		total++
		solverSecs += o.Result.Seconds
		if o.Result.Status == "unsat" {
			discharged++
			backends[o.Result.Solver+"/"+o.Result.Stage]++
			continue
		}
		if _, ok := failures[o.Name]; !ok {
			failOrder = append(failOrder, o.Name)
		}
		failures[o.Name] = append(failures[o.Name], o)
	}
	cv := coverVerdicts(obls)
	var vacuous []string
	for n, ok := range cv {
		if !ok {
			vacuous = append(vacuous, n)
		}
	}
	sort.Strings(vacuous)
	for _, r := range structs {
		total++
		names[r.Name] = true
		if r.OK {
			discharged++
			backends["structural"]++
		}
	}
	if *writeExpected {
		writeBaseLocals(eng, home)
		var pin []string
		seen := map[string]bool{}
		for _, o := range obls {
			if o.Cover || len(o.Tags) == 0 || seen[o.Name] || o.Dep {
				continue // (obligations of dependencies are not pinned: whether a function is a dependency follows the call graph)
			}
			seen[o.Name] = true
			pin = append(pin, o.Name)
		}
		for _, r := range structs {
			pin = append(pin, r.Name)
		}
		sort.Strings(pin)
		os.MkdirAll(filepath.Join(home, "expected"), 0755)
		os.WriteFile(filepath.Join(home, "expected", *prop+".obl"), []byte("# pinned obligations of "+*prop+": a run that does not generate one of these fails\n"+strings.Join(pin, "\n")+"\n"), 0644)
	}
	// pinned obligations
	var missing []string
	if b, err := os.ReadFile(filepath.Join(home, "expected", *prop+".obl")); err == nil {
		for _, l := range strings.Split(string(b), "\n") {
			l = strings.TrimSpace(l)
			if l == "" || strings.HasPrefix(l, "#") {
				continue
			}
			if !names[l] {
				missing = append(missing, l)
			}
		}
	}
	violations := 0
	os.MkdirAll(filepath.Join(*verif, "replays"), 0755)
	report := func(kind, name string, payload map[string]any, reproduced bool) {
		payload["property"] = *prop
		payload["kind"] = kind
		payload["obligation"] = name
		rp := writeReplay(*verif, *prop, name, payload)
		suffix := ""
		if !reproduced {
			suffix = " no-failing-input-found"
		}
		fmt.Printf("VIOLATION property=%s replay=%s%s\n", *prop, rp, suffix)
		violations++
	}
	for _, e := range engineErrors {
		fmt.Println("ENGINE-ERROR:", e)
		report("engine-error", "engine "+e, map[string]any{"error": e, "note": "a function under contract could not be analysed (outside the supported subset, or its contract no longer type-checks against the code); the property is not established"}, false)
	}
	for _, name := range failOrder {
		fl := failures[name]
		if k, ok := known[name]; ok {
			fmt.Printf("KNOWN-FINDING: property=%s %s (%s)\n", *prop, name, k.What)
			continue
		}
		var paths []oblReport
		for _, o := range fl {
			m := o.Result.Model
			if len(m) > 6000 {
				m = m[:6000] + "...(truncated)"
			}
			paths = append(paths, oblReport{Name: o.Name, Kind: o.Kind, Func: o.Func, Where: o.Where, Clause: o.Src, Path: o.Path, Status: o.Result.Status,
				Solver: o.Result.Solver, Stage: o.Result.Stage, Seconds: o.Result.Seconds, Values: o.Result.Values, Reason: o.Result.Reason, Model: m})
		}
		payload := map[string]any{"function": fl[0].Func, "clause": fl[0].Src, "where": fl[0].Where, "failing_paths": paths,
			"meaning": "this obligation is generated from /repo's current source and the committed contracts; it was discharged on the unchanged tree and is not discharged now"}
		rr := tryReplay(*verif, *repo, *prop, fl[0], fl)
		payload["replay"] = rr
		fmt.Printf("FAILED %s [%s] at %s\n", name, fl[0].Result.Status, fl[0].Where)
		report("obligation", name, payload, rr.Reproduced)
	}
	for _, v := range vacuous {
		fmt.Println("VACUOUS:", v)
		report("vacuous", v, map[string]any{"note": "no path satisfies the antecedent of this clause (or the requires are contradictory): the proof would be vacuous, so the check refuses to count it"}, false)
	}
	for _, r := range structs {
		if !r.OK {
			fmt.Printf("FAILED %s: %s\n", r.Name, r.Detail)
			report("structural", r.Name, map[string]any{"detail": r.Detail, "where": r.Where, "backend": "structural",
				"note": "structural contracts are evaluated over go/types and the static call graph of the working tree; the detail above is the concrete difference"}, true)
		}
	}
	for _, m := range missing {
		fmt.Println("MISSING pinned obligation:", m)
		report("missing", m, map[string]any{"note": "a pinned top-level obligation was not generated (function or contract clause removed or renamed)"}, false)
	}
	if total == 0 && violations == 0 {
		fmt.Println("no obligations generated for", *prop)
		report("empty", "no obligations", map[string]any{"note": "the check generated zero obligations"}, false)
	}
	// thorough tier: bounded stand-ins. The replay drivers are model-based bounded searches over the real
	// code; here they run unfocused and deeper. They are NOT proof and are never added to "discharged";
	// a failing input they find is a violation with that input as its replay.
	var standins []map[string]any
	if *tier == "thorough" {
		for _, pk := range standinPkgs[*prop] {
			t1 := time.Now()
			rr := runDriver(*verif, *repo, pk, "", true)
			if rr.Reproduced {
				// a counterexample from a bounded driver counts only if it shows up again on a second run
				// (the client driver has two timing-assisted scenarios)
				if again := runDriver(*verif, *repo, pk, "", true); !again.Reproduced {
					rr.Reproduced = false
					rr.Note = "a failing input was printed once but not on the confirming run: not reported (output of the first run kept)"
				}
			}
			st := map[string]any{"package": pk, "driver": rr.Driver, "command": rr.Command, "seconds": round3(time.Since(t1).Seconds()),
				"bound": "seeded random operation histories / exhaustive short strings as stated at the top of the driver file; VERIF_REPLAY_DEEP=1 multiplies the iteration counts",
				"label": "bounded", "counted_as_proved": false}
			switch {
			case !rr.Attempted:
				st["result"] = "not run: " + rr.Note
			case rr.Reproduced:
				st["result"] = "counterexample"
				fmt.Printf("FAILED bounded stand-in of package %s found a failing input\n", pk)
				report("bounded-standin", "driver "+pk, map[string]any{"replay": rr, "note": "found by the bounded model-based driver on the real code, with every obligation of the property possibly discharged: either a gap between contracts and property or an assumption that does not hold"}, true)
			default:
				st["result"] = "no failing input within the bound"
				if rr.Note != "" && !strings.Contains(rr.Note, "found no failing input") {
					st["result"] = rr.Note
				}
			}
			standins = append(standins, st)
		}
	}
	// evidence
	var samples []any
	cnt := 0
	for _, o := range obls {
		if o.Cover || o.Kind == "safety.nil" {
			continue
		}
		if cnt%((total/6)+1) == 0 && len(samples) < 8 {
			samples = append(samples, map[string]any{"obligation": o.Name, "path": o.Path, "status": o.Result.Status, "backend": o.Result.Solver + "/" + o.Result.Stage,
				"seconds": round3(o.Result.Seconds), "clause": o.Src, "where": o.Where})
		}
		cnt++
	}
	for _, r := range structs {
		if len(samples) < 10 {
			samples = append(samples, map[string]any{"obligation": r.Name, "status": map[bool]string{true: "holds", false: "fails"}[r.OK], "backend": "structural", "detail": r.Detail})
		}
	}
	var asl []string
	for a := range assumed {
		asl = append(asl, a)
	}
	for _, l := range usedAxiomLabels(eng, obls, axioms) {
		asl = append(asl, "axiom "+l)
	}
	asl = append(asl, cfg.Assumptions...)
	asl = append(asl, "A-int: int, int64 and time.Duration are mathematical integers; fixed-width unsigned types are bit-vectors",
		"A-memory: a freshly allocated reference differs from every earlier reference; append, re-slicing and []byte(s) produce fresh backing arrays",
		"A-seq: each function is verified sequentially; concurrency only through the lock-discipline obligations",
		"trusted: govc (generator, spec translation), go/ssa and go/types of x/tools, the SMT solvers")
	sort.Strings(asl)
	extra := map[string]any{
		"functions_under_contract": funcsUnder,
		"backends":                 backends,
		"solver_seconds":           round3(solverSecs),
		"cover_checks":             len(cv),
		"vacuous":                  vacuous,
		"structural_obligations":   len(structs),
		"not_decided":              cfg.NotDecided,
		"bounded_standins":         standins,
		"known_findings_reported":  len(known),
		"load_seconds":             round3(eng.loadSeconds),
		"paths_explored":           sumPaths(reports),
		"pinned_missing":           missing,
		"engine_errors":            engineErrors,
	}
	writeEvidence(evPath, *prop, *tier, seed, samples, extra, nil, asl, time.Since(t0).Seconds(), violations, []int{total, discharged}, eng)
	fmt.Printf("%s %s: %d obligations, %d discharged, %d cover groups, %d violations, %.1fs\n", *prop, *tier, total, discharged, len(cv), violations, time.Since(t0).Seconds())
	if violations > 0 {
		os.Exit(1)
	}
}

func sumPaths(rs []*FuncReport) int {
	n := 0
	for _, r := range rs {
		n += r.Paths
	}
	return n
}

func round3(f float64) float64 { return float64(int(f*1000)) / 1000 }

func usedAxiomLabels(eng *Engine, obls []*Obligation, axioms []*Term) []string {
	used := map[string]bool{}
	for _, o := range obls {
		hyps := o.Hyps.list()
		q := append(hyps, o.Goal)
		rel := relevantAxioms(axioms, q)
		rs := map[*Term]bool{}
		for _, r := range rel {
			rs[r] = true
		}
		for i, a := range axioms {
			if rs[a] && i < len(eng.specs.Axioms) {
				l := eng.specs.Axioms[i].Label
				if l == "" {
					l = eng.specs.Axioms[i].Src
				}
				used[l] = true
			}
		}
	}
	var out []string
	for l := range used {
		out = append(out, l)
	}
	sort.Strings(out)
	return out
}

func writeReplay(verif, prop, name string, payload map[string]any) string {
	dir := filepath.Join(verif, "replays")
	os.MkdirAll(dir, 0755)
	p := filepath.Join(dir, prop+"-"+sanitizeTag(name)+".json")
	b, _ := json.MarshalIndent(payload, "", " ")
	os.WriteFile(p, b, 0644)
	return p
}

func writeEvidence(path, prop, tier string, seed int, samples []any, extra map[string]any, _ any, assumptions []string, wall float64, violations int, counts []int, eng *Engine) {
	cov := map[string]any{
		"checker_cmd":         "/verif/check " + prop + " (govc check: obligations generated from /repo's working tree by symbolic execution of go/ssa, discharged by z3 5.1.0 / z3 4.8.12 / cvc5 1.0.3)",
		"trusted_base":        []string{"govc verification-condition generator (/verif/engine)", "golang.org/x/tools go/ssa + go/types", "z3 5.1.0", "z3 4.8.12", "cvc5 1.0.3", "assumed contracts in /verif/stubs"},
		"obligations":         0,
		"discharged":          0,
		"samples":             samples,
		"explanation":         "contract-based deductive verification: every obligation is named <function> <kind> <label>; 'discharged' counts obligations whose every path query was unsat; cover checks guard against vacuity",
		"evaluations":         0,
		"distinct_nontrivial": 0,
		"rule":                "one evaluation per (obligation, path) SMT query; non-trivial = not closed by the term simplifier before reaching a solver",
	}
	if counts != nil {
		cov["obligations"] = counts[0]
		cov["discharged"] = counts[1]
		cov["evaluations"] = counts[0]
		cov["distinct_nontrivial"] = counts[1]
	}
	if samples == nil {
		cov["samples"] = []any{map[string]any{"note": "no obligation was decided"}}
	}
	for k, v := range extra {
		cov[k] = v
	}
	ev := map[string]any{
		"property_id": prop,
		"tier":        tier,
		"seed":        seed,
		"level":       "proof",
		"coverage":    cov,
		"assumptions": assumptions,
		"wall_s":      round3(wall),
		"violations":  violations,
	}
	b, _ := json.MarshalIndent(ev, "", " ")
	os.WriteFile(path, b, 0644)
}

type replayResult struct {
	Attempted  bool   `json:"attempted"`
	Reproduced bool   `json:"reproduced"`
	Driver     string `json:"driver,omitempty"`
	Command    string `json:"command,omitempty"`
	Output     string `json:"output,omitempty"`
	Note       string `json:"note,omitempty"`
}

var _ = ssa.BuilderMode(0)

// standinPkgs: the packages whose drivers exercise the functions a property depends on.
var standinPkgs = map[string][]string{
	"C01": {"db", "acl", "server"}, "C02": {"db"}, "C03": {"db"}, "C04": {"db"}, "C05": {"db"}, "C06": {"db", "audit", "server"},
	"C07": {"acl"}, "C08": {"server"}, "C09": {"db", "server", "client/setec"}, "C10": {"client/setec"}, "C11": {"client/setec"},
	"C12": {"client/setec"}, "C13": {"client/setec"}, "C14": {"db"}, "C15": {"client/setec"}, "C16": {"client/setec"},
	"C17": {"server"}, "C18": {"db", "client/setec", "cmd/setec"}, "C19": {"client/setec"}, "C20": {"client/setec"},
}

// contractClosure adds to keys every in-module function under contract reachable through static calls
// (and closures created) from the functions of keys; functions without a contract are looked through.
func (eng *Engine) contractClosure(keys []string) []string {
	in := map[string]bool{}
	var out []string
	seenFn := map[*ssa.Function]bool{}
	var visitFn func(f *ssa.Function)
	var addKey func(k string)
	addKey = func(k string) {
		if in[k] {
			return
		}
		in[k] = true
		out = append(out, k)
		for _, f := range eng.funcs[k] {
			visitFn(f)
		}
		// the writers a rely condition of k names: its proof assumes what they guarantee
		if fc := eng.specs.Funcs[k]; fc != nil {
			for _, in := range fc.Interference {
				for _, w := range in.Writers {
					for wk := range eng.specs.Funcs {
						if callMatches(w, wk) && !eng.specs.Funcs[wk].Trusted {
							addKey(wk)
						}
					}
				}
			}
		}
	}
	visitFn = func(f *ssa.Function) {
		if f == nil || seenFn[f] || f.Blocks == nil {
			return
		}
		seenFn[f] = true
		touch := func(c *ssa.Function) {
			if c == nil || !strings.HasPrefix(pkgPathOf(c), modPath) {
				return
			}
			k := funcKey(c)
			if fc := eng.specs.Funcs[k]; fc != nil {
				if !fc.Trusted {
					addKey(k)
				}
				return
			}
			visitFn(c) // no contract: inlined, look through
		}
		for _, b := range f.Blocks {
			for _, ins := range b.Instrs {
				if ci, ok := ins.(ssa.CallInstruction); ok {
					touch(ci.Common().StaticCallee())
				}
				if mc, ok := ins.(*ssa.MakeClosure); ok {
					// function literals written inside f are part of f; method values and other function
					// values merely passed along (e.g. handlers registered with a mux) are not dependencies
					if cf, ok := mc.Fn.(*ssa.Function); ok && cf.Parent() == f {
						touch(cf)
					}
				}
			}
		}
	}
	for _, k := range keys {
		addKey(k)
	}
	sort.Strings(out)
	return out
}
