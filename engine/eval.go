package main

// Evaluation of spec expressions over symbolic states.

import (
	"fmt"
	"go/constant"
	"go/types"
	"math/big"
	"sort"
	"strings"
)

type bigInt = big.Int

type Env struct {
	ex   *Exec
	cur  *State
	old  *State
	vars map[string]*Val
	pkg  *types.Package
	fr   *Frame
	// entry state of the innermost loop (for entry(e))
	loopEntry *State
	depth     int
	inOld     bool
	noRename  bool
}

type specErr struct{ msg string }

func (env *Env) fail(f string, a ...any) { panic(specErr{fmt.Sprintf(f, a...)}) }

func (env *Env) with(vars map[string]*Val) *Env {
	n := *env
	n.vars = map[string]*Val{}
	for k, v := range env.vars {
		n.vars[k] = v
	}
	for k, v := range vars {
		n.vars[k] = v
	}
	return &n
}

// untyped marks literals whose sort is fixed by context.
type untypedKind int

func isUntypedInt(v *Val) bool { return v.K == VScalar && v.Ty == untypedIntType }
func isUntypedNil(v *Val) bool { return v.K == VScalar && v.Ty == untypedNilType }

var (
	untypedIntType = types.Typ[types.UntypedInt]
	untypedNilType = types.Typ[types.UntypedNil]
)

// evalClause evaluates a boolean clause for the function executing in frame fr.
func (ex *Exec) evalClause(st *State, fr *Frame, c *Clause, extra map[string]*Val) (res *Term) {
	env := ex.envFor(st, fr, extra)
	// a parameter (or receiver) renamed in the code is still known by the name the contract header gives it
	if fr != nil {
		if fc := ex.eng.contractFor(fr.fn); fc != nil {
			for i, n := range fc.Params {
				if i >= len(fr.fn.Params) {
					break
				}
				if _, bound := env.vars[n]; bound {
					continue
				}
				if _, inFrame := fr.names[n]; inFrame {
					continue
				}
				p := fr.fn.Params[i]
				if nv, ok := fr.names[p.Name()]; ok {
					if !nv.isAddr {
						env.vars[n] = nv.v
					} else if nv.v.K == VAddr {
						env.vars[n] = ex.load(st, nv.v.A)
					}
				} else if v, ok := fr.vals[p]; ok {
					env.vars[n] = v
				}
			}
		}
	}
	defer func() {
		if r := recover(); r != nil {
			if se, ok := r.(specErr); ok {
				ex.fail("contract error at %s:%d (%s): %s", c.File, c.Line, c.Src, se.msg)
			}
			panic(r)
		}
	}()
	v := env.eval(c.E)
	if v.K != VScalar || v.T.Sort != SBool {
		env.fail("clause is not boolean")
	}
	return v.T
}

func (ex *Exec) envFor(st *State, fr *Frame, extra map[string]*Val) *Env {
	env := &Env{ex: ex, cur: st, old: ex.pre, vars: map[string]*Val{}, fr: fr}
	if fr != nil && ex.evalLoop != nil {
		env.loopEntry = ex.loopEntry[ex.evalLoop]
	}
	if fr != nil && fr.fn.Pkg != nil {
		env.pkg = fr.fn.Pkg.Pkg
	} else if fr != nil && fr.fn.Origin() != nil && fr.fn.Origin().Pkg != nil {
		env.pkg = fr.fn.Origin().Pkg.Pkg
	} else if fr != nil && fr.fn.Parent() != nil {
		p := fr.fn.Parent()
		for p.Parent() != nil {
			p = p.Parent()
		}
		if p.Pkg != nil {
			env.pkg = p.Pkg.Pkg
		}
	}
	for k, v := range extra {
		env.vars[k] = v
	}
	return env
}

func (env *Env) eval(e *Expr) *Val {
	env.depth++
	if env.depth > 200 {
		env.fail("spec evaluation too deep (recursive spec function?)")
	}
	defer func() { env.depth-- }()
	switch e.Op {
	case "int":
		bi, ok := new(big.Int).SetString(e.Name, 0)
		if !ok {
			env.fail("bad integer %s", e.Name)
		}
		return &Val{K: VScalar, T: IntLitBig(bi, SInt), Ty: untypedIntType}
	case "str":
		return scalar(StrLit(e.Name), types.Typ[types.String])
	case "ident":
		return env.ident(e.Name)
	case "sel":
		return env.sel(e)
	case "index":
		return env.index(e)
	case "call":
		return env.call(e)
	case "unop":
		v := env.eval(e.Args[0])
		switch e.Name {
		case "!":
			env.wantBool(v)
			return scalar(Not(v.T), types.Typ[types.Bool])
		case "-":
			if v.T.Sort.Kind == SKInt {
				return &Val{K: VScalar, T: Sub(IntLit(0, v.T.Sort), v.T), Ty: v.Ty}
			}
			return &Val{K: VScalar, T: BVOp("bvsub", BVLit64(0, v.T.Sort.Bits), v.T), Ty: v.Ty}
		case "*":
			return env.derefVal(v)
		}
	case "binop":
		return env.binop(e)
	case "forall", "exists":
		vars := map[string]*Val{}
		var bvs []*Term
		for _, b := range e.Binders {
			ty, srt := env.resolveType(b.Type)
			var v *Val
			if ty != nil {
				sh := shapeOf(ty)
				if sh.K != ShScalar {
					env.fail("quantified variable %s must have a scalar type, has %s", b.Name, b.Type)
				}
				t := BVar(b.Name, sh.Sort)
				v = scalar(t, ty)
				bvs = append(bvs, t)
			} else {
				t := BVar(b.Name, srt)
				v = scalar(t, nil)
				bvs = append(bvs, t)
			}
			vars[b.Name] = v
		}
		body := env.with(vars).eval(e.Args[0])
		env.wantBool(body)
		if e.Op == "forall" {
			return scalar(Forall(bvs, body.T), types.Typ[types.Bool])
		}
		return scalar(Exists(bvs, body.T), types.Typ[types.Bool])
	}
	env.fail("cannot evaluate %s", e)
	return nil
}

func (env *Env) wantBool(v *Val) {
	if v.K != VScalar || v.T.Sort != SBool {
		env.fail("expected a boolean, got %s", v)
	}
}

func (env *Env) ident(name string) *Val {
	if v, ok := env.vars[name]; ok {
		return v
	}
	switch name {
	case "nil":
		return &Val{K: VScalar, T: IntLit(0, SRef), Ty: untypedNilType}
	case "true":
		return scalar(TTrue, types.Typ[types.Bool])
	case "false":
		return scalar(TFalse, types.Typ[types.Bool])
	}
	if env.fr != nil && env.inOld {
		// under old(), a parameter denotes its value at entry (even if it was captured or reassigned)
		for _, p := range env.fr.fn.Params {
			if p.Name() == name {
				if v, ok := env.fr.vals[p]; ok {
					return v
				}
			}
		}
	}
	if env.fr != nil {
		if nv, ok := env.fr.names[name]; ok {
			if nv.isAddr {
				if nv.v.K == VAddr {
					return env.ex.load(env.cur, nv.v.A)
				}
				// pointer-valued scalar: cell
				el := deref(nv.v.Ty)
				return env.ex.load(env.cur, &Addr{Kind: AObj, Root: el, Obj: nv.v.T, Ty: el})
			}
			return nv.v
		}
	}
	if g, ok := env.ex.eng.specs.Ghosts[name]; ok {
		return env.ghost(g)
	}
	if env.pkg != nil {
		if obj := env.pkg.Scope().Lookup(name); obj != nil {
			return env.object(obj)
		}
	}
	if !env.noRename {
		fn := env.ex.fn
		if env.fr != nil {
			fn = env.fr.fn
		}
		if alt, ok := renamedLocal(fn, name); ok {
			n := *env
			n.noRename = true
			return n.ident(alt)
		}
	}
	env.fail("unknown identifier %s", name)
	return nil
}

func (env *Env) ghost(g *GhostVar) *Val {
	ty, srt := env.resolveType(g.Type)
	if ty != nil {
		sh := shapeOf(ty)
		if sh.K != ShScalar {
			env.fail("ghost %s must be scalar", g.Name)
		}
		srt = sh.Sort
	}
	return scalar(env.cur.get("G|ghost."+g.Name+"|", srt), ty)
}

func (env *Env) object(obj types.Object) *Val {
	switch o := obj.(type) {
	case *types.Const:
		return constToVal(o.Val(), o.Type())
	case *types.Var:
		a := &Addr{Kind: AGlobal, Glob: o.Pkg().Path() + "." + o.Name(), Root: o.Type(), Ty: o.Type()}
		return env.ex.globalValue(env.cur, a, env.ex.load(env.cur, a))
	}
	env.fail("identifier %s is not a constant or variable", obj.Name())
	return nil
}

func constToVal(c constant.Value, t types.Type) *Val {
	sh := shapeOf(t)
	switch c.Kind() {
	case constant.Bool:
		return scalar(Bool(constant.BoolVal(c)), t)
	case constant.String:
		return scalar(StrLit(constant.StringVal(c)), t)
	case constant.Int:
		bi, _ := new(big.Int).SetString(c.ExactString(), 10)
		if sh.Sort != nil && sh.Sort.Kind == SKBV {
			return scalar(BVLit(bi, sh.Sort.Bits), t)
		}
		if b, ok := t.Underlying().(*types.Basic); ok && b.Info()&types.IsUntyped != 0 {
			return &Val{K: VScalar, T: IntLitBig(bi, SInt), Ty: untypedIntType}
		}
		return scalar(IntLitBig(bi, sh.Sort), t)
	}
	panic(specErr{"unsupported constant " + c.String()})
}

func (env *Env) findPkg(name string) *types.Package {
	if env.pkg != nil {
		for _, imp := range env.pkg.Imports() {
			if imp.Name() == name {
				return imp
			}
		}
	}
	// fall back: any loaded package with that name, module packages first
	var cand *types.Package
	for path, p := range env.ex.eng.typesPkgs {
		if p.Name() == name {
			if strings.HasPrefix(path, modPath) {
				return p
			}
			if cand == nil {
				cand = p
			}
		}
	}
	return cand
}

func (env *Env) sel(e *Expr) *Val {
	// package-qualified name?
	if e.Args[0].Op == "ident" {
		n := e.Args[0].Name
		if _, isVar := env.vars[n]; !isVar {
			known := false
			if env.fr != nil {
				_, known = env.fr.names[n]
			}
			if !known {
				if env.pkg == nil || env.pkg.Scope().Lookup(n) == nil {
					if p := env.findPkg(n); p != nil {
						obj := p.Scope().Lookup(e.Name)
						if obj == nil {
							env.fail("package %s has no %s", n, e.Name)
						}
						return env.object(obj)
					}
				}
			}
		}
	}
	base := env.eval(e.Args[0])
	return env.fieldOf(base, e.Name)
}

func (env *Env) fieldOf(base *Val, name string) *Val {
	if base.Ty == nil {
		env.fail("selector .%s on untyped value", name)
	}
	t := base.Ty
	if p, ok := t.Underlying().(*types.Pointer); ok {
		if base.K == VAddr {
			st, ok := p.Elem().Underlying().(*types.Struct)
			if !ok {
				env.fail("selector .%s on pointer to non-struct", name)
			}
			return env.fieldAt(base.A, st, name)
		}
		st, ok := p.Elem().Underlying().(*types.Struct)
		if !ok {
			env.fail("selector .%s on pointer to non-struct %s", name, typeKey(t))
		}
		a := &Addr{Kind: AObj, Root: p.Elem(), Obj: recast(base.T, SRef), Ty: p.Elem()}
		return env.fieldAt(a, st, name)
	}
	st, ok := t.Underlying().(*types.Struct)
	if !ok {
		env.fail("selector .%s on non-struct %s", name, typeKey(t))
	}
	if base.K != VStruct {
		env.fail("selector .%s on opaque value of type %s", name, typeKey(t))
	}
	for i := 0; i < st.NumFields(); i++ {
		if st.Field(i).Name() == name {
			return base.Fs[i]
		}
	}
	// promoted through embedded struct
	for i := 0; i < st.NumFields(); i++ {
		if st.Field(i).Embedded() {
			if _, ok := st.Field(i).Type().Underlying().(*types.Struct); ok {
				if r := env.tryField(base.Fs[i], name); r != nil {
					return r
				}
			}
		}
	}
	env.fail("type %s has no field %s", typeKey(t), name)
	return nil
}

func (env *Env) tryField(base *Val, name string) (r *Val) {
	defer func() {
		if e := recover(); e != nil {
			if _, ok := e.(specErr); ok {
				r = nil
				return
			}
			panic(e)
		}
	}()
	return env.fieldOf(base, name)
}

func (env *Env) fieldAt(a *Addr, st *types.Struct, name string) *Val {
	for i := 0; i < st.NumFields(); i++ {
		f := st.Field(i)
		if f.Name() == name {
			fa := a.field(f.Name(), f.Type())
			if _, isStruct := f.Type().Underlying().(*types.Struct); isStruct && shapeOf(f.Type()).K == ShStruct {
				// keep as address so nested selectors stay lazy
				return &Val{K: VAddr, A: fa, Ty: types.NewPointer(f.Type())}
			}
			return env.ex.load(env.cur, fa)
		}
	}
	for i := 0; i < st.NumFields(); i++ {
		f := st.Field(i)
		if f.Embedded() {
			if es, ok := f.Type().Underlying().(*types.Struct); ok && shapeOf(f.Type()).K == ShStruct {
				if r := env.tryFieldAt(a.field(f.Name(), f.Type()), es, name); r != nil {
					return r
				}
			}
		}
	}
	env.fail("struct has no field %s", name)
	return nil
}

func (env *Env) tryFieldAt(a *Addr, st *types.Struct, name string) (r *Val) {
	defer func() {
		if e := recover(); e != nil {
			if _, ok := e.(specErr); ok {
				r = nil
				return
			}
			panic(e)
		}
	}()
	return env.fieldAt(a, st, name)
}

func (env *Env) derefVal(v *Val) *Val {
	if v.K == VAddr {
		return env.ex.load(env.cur, v.A)
	}
	p, ok := v.Ty.Underlying().(*types.Pointer)
	if !ok {
		env.fail("dereference of non-pointer")
	}
	return env.ex.load(env.cur, &Addr{Kind: AObj, Root: p.Elem(), Obj: recast(v.T, SRef), Ty: p.Elem()})
}

// rvalue forces lazily-addressed struct values.
func (env *Env) rvalue(v *Val) *Val {
	if v.K == VAddr {
		if p, ok := v.Ty.Underlying().(*types.Pointer); ok {
			if _, isStruct := p.Elem().Underlying().(*types.Struct); isStruct {
				return env.ex.load(env.cur, v.A)
			}
		}
	}
	return v
}

func (env *Env) index(e *Expr) *Val {
	base := env.eval(e.Args[0])
	idx := env.eval(e.Args[1])
	if base.Ty == nil {
		// spec-level array sort
		if base.T.Sort.Kind == SKArray {
			return scalar(Select(base.T, coerce(idx.T, base.T.Sort.K)), nil)
		}
		env.fail("index of untyped value")
	}
	switch t := base.Ty.Underlying().(type) {
	case *types.Map:
		k := env.coerceTo(idx, shapeOf(t.Key()).Sort)
		return env.ex.mapGetMasked(env.cur, t, base.T, k)
	case *types.Slice:
		i := env.coerceTo(idx, SInt)
		if isByte(t.Elem()) {
			return scalar(App("byteAt", SBV(8), env.ex.bytesOf(env.cur, base.Ref), i), t.Elem())
		}
		return env.ex.load(env.cur, &Addr{Kind: AElem, Root: t.Elem(), Obj: base.Ref, Idx: i, Ty: t.Elem()})
	case *types.Basic:
		if t.Info()&types.IsString != 0 {
			return scalar(App("byteAt", SBV(8), base.T, env.coerceTo(idx, SInt)), types.Typ[types.Byte])
		}
	}
	env.fail("cannot index %s", typeKey(base.Ty))
	return nil
}

func (env *Env) coerceTo(v *Val, s *Sort) *Term {
	if v.K != VScalar {
		env.fail("expected scalar")
	}
	t := v.T
	if t.Sort == s {
		return t
	}
	if t.Sort.Name == s.Name {
		return recast(t, s)
	}
	if isUntypedInt(v) {
		if r := coerceUntyped(t, s); r != nil {
			return r
		}
	}
	if isUntypedInt(v) && s.Kind == SKInt {
		return recast(t, s)
	}
	env.fail("sort mismatch: have %s, want %s (%s)", t.Sort.Name, s.Name, t)
	return nil
}

func (env *Env) binop(e *Expr) *Val {
	boolT := types.Typ[types.Bool]
	switch e.Name {
	case "&&", "||", "==>", "<==>":
		a := env.eval(e.Args[0])
		env.wantBool(a)
		// short-circuit on syntactically decided left operands (the right one may mention names not in scope on this path)
		if (e.Name == "||" && a.T.Op == "true") || (e.Name == "==>" && a.T.Op == "false") {
			return scalar(TTrue, boolT)
		}
		if e.Name == "&&" && a.T.Op == "false" {
			return scalar(TFalse, boolT)
		}
		b := env.eval(e.Args[1])
		env.wantBool(b)
		switch e.Name {
		case "&&":
			return scalar(And(a.T, b.T), boolT)
		case "||":
			return scalar(Or(a.T, b.T), boolT)
		case "==>":
			return scalar(Implies(a.T, b.T), boolT)
		default:
			return scalar(Iff(a.T, b.T), boolT)
		}
	}
	ra, rb := env.eval(e.Args[0]), env.eval(e.Args[1])
	if (e.Name == "==" || e.Name == "!=") && ((ra.K == VAddr && isUntypedNil(rb)) || (rb.K == VAddr && isUntypedNil(ra))) {
		// the address of a variable, field or element is never nil
		return scalar(boolTerm(e.Name == "!="), boolT)
	}
	a := env.rvalue(ra)
	b := env.rvalue(rb)
	switch e.Name {
	case "==", "!=":
		var eq *Term
		switch {
		case isUntypedNil(a) && b.K == VSlice:
			eq = Eq(b.Ref, IntLit(0, SRef))
		case isUntypedNil(b) && a.K == VSlice:
			eq = Eq(a.Ref, IntLit(0, SRef))
		case a.K == VScalar && b.K == VScalar:
			if isUntypedInt(a) || isUntypedNil(a) {
				eq = Eq(env.coerceTo(a, b.T.Sort), b.T)
			} else {
				eq = Eq(a.T, env.coerceTo(b, a.T.Sort))
			}
		case a.K == VSlice && b.K == VSlice:
			// slice equality in specs: same content for bytes, else same header
			if isByte(a.Elem) {
				eq = Eq(bytesContent(env, a), bytesContent(env, b))
			} else {
				eq = And(Eq(a.Ref, b.Ref), Eq(a.Len, b.Len))
			}
		default:
			eq = valEq(a, b)
		}
		if e.Name == "!=" {
			eq = Not(eq)
		}
		return scalar(eq, boolT)
	}
	if a.K != VScalar || b.K != VScalar {
		env.fail("operator %s on non-scalars", e.Name)
	}
	var at, bt *Term
	rty := a.Ty
	if isUntypedInt(a) && !isUntypedInt(b) {
		at, bt = env.coerceTo(a, b.T.Sort), b.T
		rty = b.Ty
	} else {
		at, bt = a.T, env.coerceTo(b, a.T.Sort)
	}
	s := at.Sort
	signed := rty != nil && isSigned(rty)
	switch e.Name {
	case "+", "-", "*", "/", "%":
		if s == SStr && e.Name == "+" {
			return scalar(strCat(at, bt), rty)
		}
		if s.Kind == SKInt {
			switch e.Name {
			case "+":
				return &Val{K: VScalar, T: Add(at, bt), Ty: rty}
			case "-":
				return &Val{K: VScalar, T: Sub(at, bt), Ty: rty}
			case "*":
				return &Val{K: VScalar, T: Mul(at, bt), Ty: rty}
			case "/":
				return &Val{K: VScalar, T: goDiv(at, bt), Ty: rty}
			case "%":
				return &Val{K: VScalar, T: goRem(at, bt), Ty: rty}
			}
		}
		if s.Kind == SKBV {
			op := map[string]string{"+": "bvadd", "-": "bvsub", "*": "bvmul", "/": "bvudiv", "%": "bvurem"}[e.Name]
			return &Val{K: VScalar, T: BVOp(op, at, bt), Ty: rty}
		}
	case "<", "<=", ">", ">=":
		l, r := at, bt
		op := e.Name
		if op == ">" || op == ">=" {
			l, r = r, l
			op = map[string]string{">": "<", ">=": "<="}[op]
		}
		if s.Kind == SKInt {
			if op == "<" {
				return scalar(Lt(l, r), boolT)
			}
			return scalar(Le(l, r), boolT)
		}
		if s.Kind == SKBV {
			name := map[string]string{"<": "bvult", "<=": "bvule"}[op]
			if signed {
				name = strings.Replace(name, "bvu", "bvs", 1)
			}
			return scalar(BVCmp(name, l, r), boolT)
		}
	}
	env.fail("operator %s not supported on sort %s", e.Name, s.Name)
	return nil
}

func bytesContent(env *Env, v *Val) *Term {
	return Ite(Eq(v.Len, IntLit(0, SInt)), StrLit(""), env.ex.bytesOf(env.cur, v.Ref))
}

// resolveType resolves a spec type string to a Go type, or to a spec sort.
func (env *Env) resolveType(s string) (types.Type, *Sort) {
	s = strings.TrimSpace(s)
	switch s {
	case "ref":
		return nil, SRef
	case "bytes", "S":
		return nil, SStr
	case "time":
		return nil, STime
	case "opaque":
		return nil, SOpq
	case "iface":
		return nil, SIface
	case "any":
		return types.Universe.Lookup("any").Type(), nil
	}
	if strings.HasPrefix(s, "array[") {
		if i := strings.Index(s, "]"); i > 0 {
			return nil, SArr(env.sortOfTypeString(s[6:i]), env.sortOfTypeString(s[i+1:]))
		}
	}
	if env.ex.eng.specs.Sorts[s] {
		return nil, SUnint(s)
	}
	if strings.HasPrefix(s, "*") {
		t, _ := env.resolveType(s[1:])
		if t == nil {
			env.fail("cannot resolve type %s", s)
		}
		return types.NewPointer(t), nil
	}
	if strings.HasPrefix(s, "[]") {
		t, _ := env.resolveType(s[2:])
		if t == nil {
			env.fail("cannot resolve type %s", s)
		}
		return types.NewSlice(t), nil
	}
	if strings.HasPrefix(s, "map[") {
		depth := 0
		for i := 3; i < len(s); i++ {
			if s[i] == '[' {
				depth++
			} else if s[i] == ']' {
				depth--
				if depth == 0 {
					k, _ := env.resolveType(s[4:i])
					v, _ := env.resolveType(s[i+1:])
					if k == nil || v == nil {
						env.fail("cannot resolve type %s", s)
					}
					return types.NewMap(k, v), nil
				}
			}
		}
	}
	if obj := types.Universe.Lookup(s); obj != nil {
		if tn, ok := obj.(*types.TypeName); ok {
			return tn.Type(), nil
		}
	}
	if i := strings.LastIndex(s, "."); i >= 0 {
		pn, tn := s[:i], s[i+1:]
		var p *types.Package
		if strings.Contains(pn, "/") {
			p = env.ex.eng.typesPkgs[pn]
		} else {
			p = env.findPkg(pn)
		}
		if p != nil {
			if obj := p.Scope().Lookup(tn); obj != nil {
				if t, ok := obj.(*types.TypeName); ok {
					return t.Type(), nil
				}
			}
		}
		env.fail("cannot resolve type %s", s)
	}
	if env.pkg != nil {
		if obj := env.pkg.Scope().Lookup(s); obj != nil {
			if t, ok := obj.(*types.TypeName); ok {
				return t.Type(), nil
			}
		}
	}
	env.fail("cannot resolve type %s", s)
	return nil, nil
}

func (env *Env) sortOfTypeString(s string) *Sort {
	ty, srt := env.resolveType(s)
	if ty != nil {
		sh := shapeOf(ty)
		if sh.K != ShScalar {
			env.fail("type %s is not scalar", s)
		}
		return sh.Sort
	}
	return srt
}

func (env *Env) call(e *Expr) *Val {
	boolT := types.Typ[types.Bool]
	switch e.Name {
	case "old":
		n := *env
		n.cur = env.old
		n.inOld = true
		if env.ex.inputs != nil && env.fr == nil {
			// captured variables: old(x) is the value at entry
			nv := map[string]*Val{}
			for k, v := range env.vars {
				nv[k] = v
			}
			if env.ex.fn != nil {
				for _, fv := range env.ex.fn.FreeVars {
					if v, ok := env.ex.inputs[fv.Name()]; ok {
						if _, bound := env.vars[fv.Name()]; bound {
							nv[fv.Name()] = v
						}
					}
				}
			}
			n.vars = nv
		}
		return n.eval(e.Args[0])
	case "iterstart":
		if env.fr == nil || env.ex.iterStart == nil {
			env.fail("iterstart() outside a loop clause")
		}
		var stt *State
		if env.ex.evalLoop != nil {
			stt = env.ex.iterStart[env.ex.evalLoop]
		}
		if stt == nil {
			env.fail("iterstart(): no loop iteration in progress")
		}
		n := *env
		n.cur = stt
		n.fr = stt.top()
		return n.eval(e.Args[0])
	case "ptrNonNil":
		// ptrNonNil(x): x != nil if x is of pointer type, true otherwise (lets the contract of a generic function
		// speak about the instances whose result is a pointer)
		a := env.rvalue(env.eval(e.Args[0]))
		if a.Ty != nil {
			if _, ok := a.Ty.Underlying().(*types.Pointer); ok && a.K == VScalar {
				return scalar(Neq(a.T, IntLit(0, a.T.Sort)), boolT)
			}
		}
		return scalar(TTrue, boolT)
	case "defined":
		// defined(x): the local x has been assigned on this path (lets a clause mention locals of a later part of a loop body)
		if len(e.Args) != 1 || e.Args[0].Op != "ident" {
			env.fail("defined() takes a local's name")
		}
		_, inVars := env.vars[e.Args[0].Name]
		inFrame := false
		if env.fr != nil {
			_, inFrame = env.fr.names[e.Args[0].Name]
		}
		return scalar(boolTerm(inVars || inFrame), boolT)
	case "isSlot":
		a := env.eval(e.Args[0])
		return scalar(App("isSlot", SBool, recast(a.T, SRef)), boolT)
	case "chanFired":
		a := env.eval(e.Args[0])
		t := BVar("t", SInt)
		return scalar(Exists([]*Term{t}, App("chanFired", SBool, recast(a.T, SRef), t)), boolT)
	case "entry":
		if env.loopEntry == nil {
			env.fail("entry() outside a loop invariant")
		}
		n := *env
		n.cur = env.loopEntry
		return n.eval(e.Args[0])
	case "has":
		m := env.eval(e.Args[0])
		mt, ok := m.Ty.Underlying().(*types.Map)
		if !ok {
			env.fail("has() on non-map")
		}
		k := env.coerceTo(env.eval(e.Args[1]), shapeOf(mt.Key()).Sort)
		return scalar(env.ex.mapHasNil(env.cur, mt, m.T, k), boolT)
	case "visited":
		if env.fr != nil {
			for v, rv := range env.fr.vals {
				_ = v
				if rv != nil && rv.K == VRange {
					k := env.coerceTo(env.eval(e.Args[0]), rv.Rng.visited.Sort.K)
					return scalar(Select(rv.Rng.visited, k), boolT)
				}
			}
		}
		env.fail("visited() with no map range in scope")
	case "len":
		v := env.rvalue(env.eval(e.Args[0]))
		switch {
		case v.K == VSlice:
			return scalar(v.Len, types.Typ[types.Int])
		case v.K == VScalar && v.T.Sort == SStr:
			return scalar(slen(v.T), types.Typ[types.Int])
		case v.Ty != nil:
			if mt, ok := v.Ty.Underlying().(*types.Map); ok {
				return scalar(Ite(Eq(v.T, IntLit(0, SRef)), IntLit(0, SInt), env.ex.mapLen(env.cur, mt, v.T)), types.Typ[types.Int])
			}
		}
		env.fail("len() of %s", v)
	case "bytes":
		v := env.rvalue(env.eval(e.Args[0]))
		if v.K == VSlice {
			return scalar(bytesContent(env, v), types.Typ[types.String])
		}
		if v.K == VScalar && v.T.Sort == SStr {
			return scalar(v.T, types.Typ[types.String])
		}
		env.fail("bytes() of non-slice")
	case "str":
		v := env.eval(e.Args[0])
		if v.K == VScalar && v.T.Sort == SStr {
			return scalar(v.T, types.Typ[types.String])
		}
		env.fail("str() of non-string")
	case "sprintf":
		if len(e.Args) < 1 || e.Args[0].Op != "str" {
			env.fail("sprintf needs a literal format")
		}
		var ts []*Term
		for _, a := range e.Args[1:] {
			v := env.rvalue(env.eval(a))
			if v.K == VSlice && isByte(v.Elem) {
				ts = append(ts, bytesContent(env, v))
			} else {
				ts = append(ts, v.leaves()...)
			}
		}
		return scalar(App(fmtName("sprintf", e.Args[0].Name, ts), SStr, ts...), types.Typ[types.String])
	case "seq":
		v := env.rvalue(env.eval(e.Args[0]))
		if v.K != VSlice || shapeOf(v.Elem).K != ShScalar {
			env.fail("seq() needs a slice of scalars")
		}
		es := shapeOf(v.Elem).Sort
		n := "E|" + short(typeKey(v.Elem)) + "|"
		arr := Select(env.cur.get(n, SArr(SRef, SArr(SInt, es))), v.Ref)
		return scalar(App("mkSeq", SUnint("StrSeq"), arr, v.Len), nil)
	case "bufAt":
		v := env.eval(e.Args[0])
		if v.K == VAddr {
			// a buffer embedded in another struct (an interior pointer): its opaque value lives in that field
			lv := env.ex.load(env.cur, v.A)
			return scalar(App("bufBytes", SStr, lv.T), types.Typ[types.String])
		}
		if v.K == VScalar && v.T.Sort == SOpq {
			return scalar(App("bufBytes", SStr, v.T), types.Typ[types.String]) // already the buffer's opaque value
		}
		arr := env.cur.get("F|bytes.Buffer|", SArr(SRef, SOpq))
		return scalar(App("bufBytes", SStr, Select(arr, recast(v.T, SRef))), types.Typ[types.String])
	case "ref":
		v := env.rvalue(env.eval(e.Args[0]))
		if v.K == VSlice {
			return scalar(v.Ref, nil)
		}
		return scalar(recast(v.T, SRef), nil)
	case "fresh":
		v := env.rvalue(env.eval(e.Args[0]))
		r := v.T
		if v.K == VSlice {
			r = v.Ref
		}
		return scalar(Ge(recast(r, SRef), env.old.alloc), boolT)
	case "allocated":
		v := env.rvalue(env.eval(e.Args[0]))
		r := v.T
		if v.K == VSlice {
			r = v.Ref
		}
		return scalar(And(Gt(recast(r, SRef), IntLit(0, SRef)), Lt(recast(r, SRef), env.cur.alloc)), boolT)
	case "ite":
		c := env.eval(e.Args[0])
		env.wantBool(c)
		a, b := env.rvalue(env.eval(e.Args[1])), env.rvalue(env.eval(e.Args[2]))
		if a.K == VScalar && b.K == VScalar {
			if isUntypedInt(a) {
				return &Val{K: VScalar, T: Ite(c.T, env.coerceTo(a, b.T.Sort), b.T), Ty: b.Ty}
			}
			return &Val{K: VScalar, T: Ite(c.T, a.T, env.coerceTo(b, a.T.Sort)), Ty: a.Ty}
		}
		env.fail("ite on non-scalars")
	case "errIs":
		a, b := env.eval(e.Args[0]), env.eval(e.Args[1])
		return scalar(App("errIs", SBool, recast(a.T, SErr), recast(b.T, SErr)), boolT)
	case "chlen", "chcap":
		a := env.eval(e.Args[0])
		name := map[string]string{"chlen": "Chlen", "chcap": "Chcap"}[e.Name]
		return scalar(Select(env.cur.get(name, SArr(SRef, SInt)), recast(a.T, SRef)), types.Typ[types.Int])
	case "boxfresh":
		// boxfresh(x): x is an interface value statically known to hold a []byte whose backing array was allocated by this function
		a := env.eval(e.Args[0])
		if a.Box == nil || a.Box.K != VSlice {
			return scalar(TTrue, boolT)
		}
		return scalar(Or(Eq(a.Box.Len, IntLit(0, SInt)), Ge(a.Box.Ref, env.old.alloc)), boolT)
	case "isHandleOf":
		// isHandleOf(v, h): the interface value v holds the function value h
		a, b := env.eval(e.Args[0]), env.eval(e.Args[1])
		return scalar(Eq(recast(a.T, SRef), recast(b.T, SRef)), boolT)
	case "zeroTime":
		return scalar(Sym("zeroTime", STime), nil)
	case "unwrap1":
		a := env.eval(e.Args[0])
		return scalar(App("unwrap1", SErr, recast(a.T, SErr)), types.Universe.Lookup("error").Type())
	case "dyntype":
		a := env.eval(e.Args[0])
		return scalar(App("dyntype", SInt, recast(a.T, SIface)), types.Typ[types.Int])
	case "isType":
		// isType(x, "pkg.Type") : dynamic type of interface x
		a := env.eval(e.Args[0])
		ty, _ := env.resolveType(e.Args[1].Name)
		return scalar(And(Neq(a.T, IntLit(0, a.T.Sort)), Eq(App("dyntype", SInt, recast(a.T, SIface)), IntLit(int64(env.ex.eng.typeID(ty)), SInt))), boolT)
	case "implements":
		a := env.eval(e.Args[0])
		ty, _ := env.resolveType(e.Args[1].Name)
		if ty == nil {
			env.fail("implements: unknown type %s", e.Args[1].Name)
		}
		return scalar(And(Neq(a.T, IntLit(0, a.T.Sort)), App("implements", SBool, App("dyntype", SInt, recast(a.T, SIface)), IntLit(int64(env.ex.eng.typeID(ty)), SInt))), boolT)
	case "fnName":
		// the function a func value statically denotes (method values: the method, without "$bound")
		a := env.eval(e.Args[0])
		if a.Clo != nil {
			return scalar(StrLit(strings.TrimSuffix(funcShort(a.Clo.fn), "$bound")), types.Typ[types.String])
		}
		return scalar(App("fnNameOf", SStr, recast(a.T, SRef)), types.Typ[types.String])
	case "boundRecv":
		// the receiver a method value is bound to
		a := env.eval(e.Args[0])
		if a.Clo != nil && len(a.Clo.binds) == 1 && strings.HasSuffix(a.Clo.fn.Name(), "$bound") {
			return a.Clo.binds[0]
		}
		env.fail("boundRecv: not a statically known method value")
		return nil
	case "spawned":
		name := e.Args[0].Name
		for _, n := range env.cur.notes {
			if n == "go:"+name {
				return scalar(TTrue, boolT)
			}
		}
		return scalar(TFalse, boolT)
	case "noted":
		name := e.Args[0].Name
		for _, n := range env.cur.notes {
			if n == name {
				return scalar(TTrue, boolT)
			}
		}
		return scalar(TFalse, boolT)
	}
	if sf, ok := env.ex.eng.specs.SpecFns[e.Name]; ok {
		return env.specCall(sf, e)
	}
	env.fail("unknown spec function %s", e.Name)
	return nil
}

func (env *Env) specCall(sf *SpecFunc, e *Expr) *Val {
	if len(e.Args) != len(sf.Params) {
		env.fail("%s expects %d arguments", sf.Name, len(sf.Params))
	}
	// resolve types in the declaring package
	denv := *env
	if sf.Pkg != "" {
		if p := env.ex.eng.typesPkgs[sf.Pkg]; p != nil {
			denv.pkg = p
		}
	}
	args := make([]*Val, len(e.Args))
	for i, a := range e.Args {
		raw := env.eval(a)
		if raw.K == VAddr && strings.HasPrefix(sf.Params[i].Type, "*") {
			args[i] = raw // an interior pointer passed where the spec function takes a pointer
			continue
		}
		args[i] = env.rvalue(raw)
	}
	if sf.Uninter {
		var ts []*Term
		for i, p := range sf.Params {
			srt := denv.sortOfTypeString(p.Type)
			if args[i].K == VSlice && srt == SStr {
				ts = append(ts, bytesContent(env, args[i]))
				continue
			}
			ts = append(ts, env.coerceTo(args[i], srt))
		}
		rty, rs := denv.resolveType(sf.Result)
		if rty != nil {
			rs = shapeOf(rty).Sort
			if rs == nil {
				env.fail("ufn %s must return a scalar", sf.Name)
			}
		}
		return scalar(App(sf.Name, rs, ts...), rty)
	}
	vars := map[string]*Val{}
	for i, p := range sf.Params {
		ty, srt := denv.resolveType(p.Type)
		a := args[i]
		if ty != nil {
			if _, isPtr := ty.Underlying().(*types.Pointer); isPtr && a.K == VAddr {
				// keep the address
			} else if a.K == VScalar && (isUntypedInt(a) || isUntypedNil(a)) {
				a = scalar(env.coerceTo(a, shapeOf(ty).Sort), ty)
			} else if a.Ty == nil || !sameShape(a, ty) {
				if a.K == VScalar && shapeOf(ty).K == ShScalar && a.T.Sort.Name == shapeOf(ty).Sort.Name {
					a = scalar(recast(a.T, shapeOf(ty).Sort), ty)
				} else {
					env.fail("argument %d of %s: have %s, want %s", i+1, sf.Name, a, p.Type)
				}
			} else {
				na := *a
				na.Ty = ty
				a = &na
			}
		} else {
			a = scalar(env.coerceTo(a, srt), nil)
		}
		vars[p.Name] = a
	}
	n := denv.with(nil)
	n.vars = vars // spec functions are closed: only their parameters are in scope
	n.fr = nil
	n.depth = env.depth
	hide := false
	if sf.Opaque {
		cur := ""
		if env.ex.fn != nil {
			cur = pkgPathOf(env.ex.fn)
		}
		hide = cur != sf.Pkg
	}
	if !hide {
		return n.eval(sf.Body)
	}
	// Outside the declaring package the body is hidden: the value is an
	// uninterpreted function of the arguments and of every heap array the body reads.
	saved := readHook
	readHook = map[string]*Term{}
	res := n.eval(sf.Body)
	reads := readHook
	readHook = saved
	if res.K != VScalar {
		env.fail("opaque spec function %s must be scalar", sf.Name)
	}
	var keys []string
	for k := range reads {
		keys = append(keys, k)
	}
	sort.Strings(keys)
	var ts []*Term
	for _, p := range sf.Params {
		ts = append(ts, vars[p.Name].leaves()...)
	}
	for _, k := range keys {
		ts = append(ts, reads[k])
		if saved != nil {
			saved[k] = reads[k]
		}
	}
	res = &Val{K: VScalar, T: App(fmt.Sprintf("opq$%s$%08x", sf.Name, fnv32(strings.Join(keys, ";"))), res.T.Sort, ts...), Ty: res.Ty}
	return res
}

func sameShape(a *Val, ty types.Type) bool {
	sh := shapeOf(ty)
	switch sh.K {
	case ShScalar:
		return a.K == VScalar && a.T.Sort.Name == sh.Sort.Name
	case ShSlice:
		return a.K == VSlice
	default:
		return (a.K == VStruct || a.K == VTuple) && len(a.Fs) == len(sh.Fields)
	}
}

// coerceUntyped converts an untyped integer expression (literals combined by
// ite) to sort s.
func coerceUntyped(t *Term, s *Sort) *Term {
	switch t.Op {
	case "int":
		if s.Kind == SKBV {
			return BVLit(t.IVal, s.Bits)
		}
		if s.Kind == SKInt {
			return IntLitBig(t.IVal, s)
		}
	case "ite":
		a, b := coerceUntyped(t.Args[1], s), coerceUntyped(t.Args[2], s)
		if a != nil && b != nil {
			return Ite(t.Args[0], a, b)
		}
	}
	return nil
}

func boolTerm(b bool) *Term {
	if b {
		return TTrue
	}
	return TFalse
}
