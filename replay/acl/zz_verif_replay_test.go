package acl

// Replay driver for package acl (injected by `go test -overlay`). It compares
// Secret.Match with the glob relation of the property statement, and Rules.Allow
// with its definition, over all small inputs, and prints the first disagreement.

import (
	"os"
	"strings"
	"testing"
)

// globRef: the pattern's literal pieces occur in the name in order, anchored at
// both ends, each '*' standing for zero or more arbitrary characters.
func globRef(pat, name string) bool {
	parts := strings.Split(pat, "*")
	if len(parts) == 1 {
		return pat == name
	}
	if !strings.HasPrefix(name, parts[0]) {
		return false
	}
	name = name[len(parts[0]):]
	last := parts[len(parts)-1]
	for _, mid := range parts[1 : len(parts)-1] {
		i := strings.Index(name, mid)
		if i < 0 {
			return false
		}
		name = name[i+len(mid):]
	}
	return len(name) >= len(last) && strings.HasSuffix(name, last)
}

func allStrings(alpha []string, max int) []string {
	out := []string{""}
	level := []string{""}
	for l := 0; l < max; l++ {
		var next []string
		for _, s := range level {
			for _, a := range alpha {
				next = append(next, s+a)
			}
		}
		out = append(out, next...)
		level = next
	}
	return out
}

func TestVerifReplayACL(t *testing.T) {
	alpha := []string{"a", "*", "/", ".", "\n", "+", "é"}
	pl, nl := 3, 4
	if os.Getenv("VERIF_REPLAY_DEEP") != "" {
		pl, nl = 4, 5 // thorough tier: all patterns up to length 4 against all names up to length 5
	}
	pats := allStrings(alpha, pl)
	names := allStrings([]string{"a", "/", ".", "\n", "+", "é", "*"}, nl)
	for _, p := range pats {
		for _, n := range names {
			got := func() (r bool) {
				defer func() {
					if e := recover(); e != nil {
						t.Fatalf("REPLAY-COUNTEREXAMPLE\nSecret(%q).Match(%q) panicked: %v", p, n, e)
					}
				}()
				return Secret(p).Match(n)
			}()
			if want := globRef(p, n); got != want {
				t.Fatalf("REPLAY-COUNTEREXAMPLE\nSecret(%q).Match(%q) = %v, the glob relation of the statement gives %v", p, n, got, want)
			}
		}
	}
	// rule sets: allow iff one single rule lists the action and has a matching pattern
	acts := []Action{ActionGet, ActionPut, ActionInfo}
	secs := []Secret{"a", "b*", "*"}
	var rules []Rule
	for am := 0; am < 8; am++ {
		for sm := 0; sm < 8; sm++ {
			var r Rule
			for i := 0; i < 3; i++ {
				if am&(1<<i) != 0 {
					r.Action = append(r.Action, acts[i])
				}
				if sm&(1<<i) != 0 {
					r.Secret = append(r.Secret, secs[i])
				}
			}
			rules = append(rules, r)
		}
	}
	ref := func(rr Rules, a Action, s string) bool {
		for _, r := range rr {
			okA, okS := false, false
			for _, x := range r.Action {
				okA = okA || x == a
			}
			for _, x := range r.Secret {
				okS = okS || globRef(string(x), s)
			}
			if okA && okS {
				return true
			}
		}
		return false
	}
	for i := range rules {
		for j := range rules {
			for k := 0; k < len(rules); k += 7 {
				rr := Rules{rules[i], rules[j], rules[k]}
				for _, a := range acts {
					for _, s := range []string{"a", "bx", "c"} {
						if got, want := rr.Allow(a, s), ref(rr, a, s); got != want {
							t.Fatalf("REPLAY-COUNTEREXAMPLE\nRules%+v.Allow(%q, %q) = %v, definition gives %v", rr, a, s, got, want)
						}
					}
				}
			}
		}
	}
	if (Rules{}).Allow(ActionGet, "a") {
		t.Fatalf("REPLAY-COUNTEREXAMPLE\nthe empty rule set allows something")
	}
}
