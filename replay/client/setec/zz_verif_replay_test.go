package setec

// Replay driver for package client/setec (injected by `go test -overlay`; never
// written to the repository). When an obligation of a client/setec function
// fails, this driver runs the real code against a scripted secrets service, a
// fake clock and an in-memory cache, and compares every observable outcome with
// the sequential model taken from the property statements (C09-C13, C15, C16,
// C19, C20). A disagreement is printed as "REPLAY-COUNTEREXAMPLE" together with
// the operation history that leads to it, and fails the test.

import (
	"context"
	"encoding/json"
	"errors"
	"fmt"
	"math/rand"
	"net/http"
	"net/http/httptest"
	"os"
	"path"
	"path/filepath"
	"sort"
	"strings"
	"sync"
	"sync/atomic"
	"testing"
	"time"

	"github.com/tailscale/setec/types/api"
)

// ---- scripted service ---------------------------------------------------------

type rSecret struct {
	vers   []string // vers[i] is the value of version i+1
	active int      // active version number (1-based)
	gone   bool     // deleted at the service (version numbers are never reused)
}

// rService is a scripted StoreClient. It logs every call with the fake time at
// which it was made, and fails calls according to a per-name script.
type rService struct {
	mu        sync.Mutex
	now       func() time.Time
	secrets   map[string]*rSecret
	fail      map[string][]string // per name: outcome of the next calls ("err", "deadline", "notfound")
	dead      bool                // every call fails
	calls     []string            // "Get(a)@1000000", in call order
	served    map[string]map[string]bool
	opCalls   int
	cancelAt  int // cancel the operation's context during this call of the current operation (1-based; 0 = never)
	cancel    context.CancelFunc
	runaway   bool
	realTimes []time.Time // real time of each call (only used by the deep back-off check)
	hook      func()      // runs once, on the caller's goroutine, while the next request is in flight
}

const rRunawayCalls = 40

func newRService(now func() time.Time) *rService {
	return &rService{now: now, secrets: map[string]*rSecret{}, fail: map[string][]string{}, served: map[string]map[string]bool{}}
}

func (v *rService) put(name, val string) int {
	v.mu.Lock()
	defer v.mu.Unlock()
	s := v.secrets[name]
	if s == nil {
		s = &rSecret{}
		v.secrets[name] = s
	}
	s.vers = append(s.vers, val)
	s.active = len(s.vers)
	s.gone = false
	return s.active
}

func (v *rService) activeOf(name string) (api.SecretVersion, string, bool) {
	v.mu.Lock()
	defer v.mu.Unlock()
	s := v.secrets[name]
	if s == nil || s.gone {
		return 0, "", false
	}
	return api.SecretVersion(s.active), s.vers[s.active-1], true
}

func (v *rService) beginOp() int {
	v.mu.Lock()
	defer v.mu.Unlock()
	v.opCalls = 0
	return len(v.calls)
}

func (v *rService) callsSince(i int) []string {
	v.mu.Lock()
	defer v.mu.Unlock()
	return append([]string(nil), v.calls[i:]...)
}

func (v *rService) answer(ctx context.Context, what, name string, old api.SecretVersion, cond bool) (*api.SecretValue, error) {
	v.mu.Lock()
	hook := v.hook
	v.hook = nil
	v.mu.Unlock()
	if hook != nil {
		hook()
	}
	v.mu.Lock()
	defer v.mu.Unlock()
	v.opCalls++
	v.calls = append(v.calls, fmt.Sprintf("%s@%d", what, v.now().Unix()))
	v.realTimes = append(v.realTimes, time.Now())
	if v.opCalls > rRunawayCalls {
		// A retry loop that does not end: record it and let the loop finish by
		// serving a value whatever the script says.
		v.runaway = true
		return &api.SecretValue{Value: []byte("runaway"), Version: 999}, nil
	}
	if v.cancelAt != 0 && v.opCalls == v.cancelAt && v.cancel != nil {
		v.cancel()
	}
	if err := ctx.Err(); err != nil {
		return nil, err
	}
	if v.dead {
		return nil, errors.New("injected: service unreachable")
	}
	if q := v.fail[name]; len(q) > 0 {
		k := q[0]
		v.fail[name] = q[1:]
		switch k {
		case "deadline":
			return nil, fmt.Errorf("injected: request timed out: %w", context.DeadlineExceeded)
		case "notfound":
			return nil, api.ErrNotFound
		}
		return nil, errors.New("injected: service failure")
	}
	s := v.secrets[name]
	if s == nil || s.gone {
		return nil, api.ErrNotFound
	}
	if cond && old != 0 && api.SecretVersion(s.active) == old {
		return nil, api.ErrValueNotChanged
	}
	val := s.vers[s.active-1]
	if v.served[name] == nil {
		v.served[name] = map[string]bool{}
	}
	v.served[name][fmt.Sprintf("%d:%s", s.active, val)] = true
	return &api.SecretValue{Value: []byte(val), Version: api.SecretVersion(s.active)}, nil
}

func (v *rService) Get(ctx context.Context, name string) (*api.SecretValue, error) {
	return v.answer(ctx, fmt.Sprintf("Get(%s)", name), name, 0, false)
}

func (v *rService) GetIfChanged(ctx context.Context, name string, old api.SecretVersion) (*api.SecretValue, error) {
	return v.answer(ctx, fmt.Sprintf("GetIfChanged(%s,%d)", name, old), name, old, true)
}

// stripTimes removes the "@time" suffix of logged calls and sorts them.
func stripTimes(calls []string) []string {
	out := make([]string, len(calls))
	for i, c := range calls {
		out[i] = c[:strings.LastIndex(c, "@")]
	}
	sort.Strings(out)
	return out
}

// ---- cache with injected write failures -----------------------------------------

type rCache struct {
	mem      *MemCache
	failNext int
	writes   int
	failed   int
}

func (c *rCache) Write(data []byte) error {
	c.writes++
	if c.failNext > 0 {
		c.failNext--
		c.failed++
		return errors.New("injected: cache write failure")
	}
	return c.mem.Write(append([]byte(nil), data...))
}

func (c *rCache) Read() ([]byte, error) { return c.mem.Read() }

// ---- model ----------------------------------------------------------------------

type mEntry struct {
	ver        api.SecretVersion
	val        string
	declared   bool
	lastAccess int64
	handle     bool // a handle or watcher was handed out by this process
}

type rDocEntry struct {
	ver        api.SecretVersion
	val        string
	lastAccess int64
}

// decodeDoc is the documented cache format: an object name -> {"secret":
// {"Value","Version"}, "lastAccess": "<seconds>"}. ok is false for anything that
// is not a well-formed document of that shape (such a cache is ignored as a whole).
func decodeDoc(doc string) (map[string]rDocEntry, bool) {
	out := map[string]rDocEntry{}
	if doc == "" {
		return out, true
	}
	var raw map[string]*struct {
		Secret     *api.SecretValue `json:"secret"`
		LastAccess int64            `json:"lastAccess,string"`
	}
	if err := json.Unmarshal([]byte(doc), &raw); err != nil {
		return nil, false
	}
	for k, e := range raw {
		if k == "" || e == nil || e.Secret == nil {
			return nil, false
		}
		out[k] = rDocEntry{ver: e.Secret.Version, val: string(e.Secret.Value), lastAccess: e.LastAccess}
	}
	return out, true
}

func encodeDoc(m map[string]rDocEntry) string {
	raw := map[string]any{}
	for k, e := range m {
		raw[k] = map[string]any{"secret": map[string]any{"Value": []byte(e.val), "Version": e.ver}, "lastAccess": fmt.Sprint(e.lastAccess)}
	}
	b, _ := json.Marshal(raw)
	return string(b)
}

func docString(m map[string]rDocEntry) string {
	var names []string
	for n := range m {
		names = append(names, n)
	}
	sort.Strings(names)
	var sb strings.Builder
	for _, n := range names {
		fmt.Fprintf(&sb, "%q{v%d %q access=%d} ", n, m[n].ver, m[n].val, m[n].lastAccess)
	}
	return sb.String()
}

// rBuilt is the value type maintained by updaters in this driver.
type rBuilt struct {
	from   string
	closed int
}

func (b *rBuilt) Close() error { b.closed++; return nil }

type rUpdater struct {
	id      int
	name    string
	u       *Updater[*rBuilt]
	cur     *rBuilt   // value the model says is current
	old     []*rBuilt // replaced values (each must have been closed exactly once)
	pending bool      // an install happened since the previous Get
	err     bool      // the last rebuild failed
	builds  int       // builder invocations observed
	seen    string    // bytes given to the latest builder invocation
	last    *rBuilt   // value returned by the latest successful builder invocation
}

// ---- harness --------------------------------------------------------------------

type rHarness struct {
	t     *testing.T
	hist  []string
	clock time.Time
	svc   *rService
	cache *rCache
	st    *Store

	declared []string
	lookup   bool
	expiry   time.Duration

	m       map[string]*mEntry
	handles map[string]Secret
	upd     []*rUpdater
	doc     map[string]rDocEntry // last cache document decoded (valid documents only)
	rawDoc  string               // its text

	pinnedInFlight string
	flushWhen      string
	limit          time.Duration // real-time limit for one call (default 3s)
	errUnknown     bool          // polls run by the background task: their error is only logged
	logMu          sync.Mutex
	logs           []string
}

func (h *rHarness) now() time.Time { return h.clock }

// logf receives the store's log lines (also from its background task).
func (h *rHarness) logf(format string, a ...any) {
	h.logMu.Lock()
	defer h.logMu.Unlock()
	if len(h.logs) < 200 {
		h.logs = append(h.logs, fmt.Sprintf(format, a...))
	}
}

func (h *rHarness) note(format string, a ...any) {
	h.hist = append(h.hist, fmt.Sprintf(format, a...))
}

func (h *rHarness) modelString() string {
	var names []string
	for n := range h.m {
		names = append(names, n)
	}
	sort.Strings(names)
	var sb strings.Builder
	for _, n := range names {
		e := h.m[n]
		fmt.Fprintf(&sb, "%q{v%d %q declared=%v handle=%v access=%d} ", n, e.ver, e.val, e.declared, e.handle, e.lastAccess)
	}
	return sb.String()
}

func realString(s *Store) (out string) {
	if s == nil {
		return "(no store)"
	}
	defer func() {
		if e := recover(); e != nil {
			out = fmt.Sprintf("(unreadable: %v)", e)
		}
	}()
	if !s.active.TryLock() {
		return "(the store's lock is held)"
	}
	defer s.active.Unlock()
	var names []string
	for n := range s.active.m {
		names = append(names, n)
	}
	sort.Strings(names)
	var sb strings.Builder
	for _, n := range names {
		cs := s.active.m[n]
		_, hd := s.active.f[n]
		switch {
		case cs == nil:
			fmt.Fprintf(&sb, "%q{<nil entry>} ", n)
		case cs.Secret == nil:
			fmt.Fprintf(&sb, "%q{<nil secret>} ", n)
		default:
			fmt.Fprintf(&sb, "%q{v%d %q declared=%v handle=%v access=%d} ", n, cs.Secret.Version, cs.Secret.Value, cs.Declared, hd, cs.LastAccess)
		}
	}
	return sb.String()
}

func (h *rHarness) report(problem string) string {
	cache := "(none)"
	if h.cache != nil {
		cache = h.cache.mem.String()
	}
	return fmt.Sprintf("REPLAY-COUNTEREXAMPLE\nhistory:\n  %s\nproblem: %s\nmodel state: %s\nreal state:  %s\ncache: %s",
		strings.Join(h.hist, "\n  "), problem, h.modelString(), realString(h.st), cache)
}

func (h *rHarness) bad(format string, a ...any) {
	h.t.Helper()
	h.t.Fatalf("%s", h.report(fmt.Sprintf(format, a...)))
}

// rWatch is the call into the code under test that is currently running. A
// watchdog goroutine reports a call that does not return (the test goroutine is
// stuck in it, so the report is printed directly and the process exits).
type rWatch struct {
	h     *rHarness
	start time.Time
	limit time.Duration
}

var rWatching atomic.Pointer[rWatch]

func startWatchdog() (stop func()) {
	done := make(chan struct{})
	go func() {
		tk := time.NewTicker(200 * time.Millisecond)
		defer tk.Stop()
		for {
			select {
			case <-done:
				return
			case <-tk.C:
				if w := rWatching.Load(); w != nil && time.Since(w.start) > w.limit {
					fmt.Printf("--- FAIL: TestVerifReplaySetec\n%s\n", w.h.report(fmt.Sprintf("the call did not return within %v of real time (it waits for something that never happens: a lock held across a request, or an unbounded retry)", w.limit)))
					os.Exit(1)
				}
			}
		}
	}()
	return func() { close(done) }
}

// guard runs one call into the code under test. A panic is returned (the caller
// decides whether it was documented); a call that does not return is reported
// by the watchdog.
func (h *rHarness) guard(f func()) (panicked any) {
	limit := h.limit
	if limit == 0 {
		limit = 3 * time.Second
	}
	rWatching.Store(&rWatch{h: h, start: time.Now(), limit: limit})
	defer rWatching.Store(nil)
	defer func() { panicked = recover() }()
	f()
	return nil
}

// must is guard for calls that may never panic.
func (h *rHarness) must(f func()) {
	h.t.Helper()
	if p := h.guard(f); p != nil {
		h.bad("panic: %v", p)
	}
	if h.svc != nil && h.svc.runaway {
		h.bad("more than %d requests were sent to the service within one call: a retry loop that does not end (if the call's context has ended, it must return promptly instead of retrying)", rRunawayCalls)
	}
}

func sameStrings(a, b []string) bool {
	if len(a) != len(b) {
		return false
	}
	for i := range a {
		if a[i] != b[i] {
			return false
		}
	}
	return true
}

// expectCalls compares the requests made since mark with the expected multiset.
func (h *rHarness) expectCalls(mark int, want ...string) {
	h.t.Helper()
	got := stripTimes(h.svc.callsSince(mark))
	sort.Strings(want)
	if !sameStrings(got, want) {
		h.bad("requests sent to the service: got %v, the statement allows exactly %v", got, want)
	}
}

// snapshot is the cache document the statements require after an install.
func (h *rHarness) snapshot() map[string]rDocEntry {
	out := map[string]rDocEntry{}
	for n, e := range h.m {
		out[n] = rDocEntry{ver: e.ver, val: e.val, lastAccess: e.lastAccess}
	}
	return out
}

// checkState compares what the store holds with the model: same names, each
// with a complete value of the model's version and bytes, handles for exactly
// the names for which one was handed out; and the cache document.
func (h *rHarness) checkState(changed bool, failedWrites int) {
	h.t.Helper()
	s := h.st
	s.active.Lock()
	type rv struct {
		ver api.SecretVersion
		val string
		ok  bool
	}
	real := map[string]rv{}
	for n, cs := range s.active.m {
		if cs == nil || cs.Secret == nil {
			real[n] = rv{}
		} else {
			real[n] = rv{cs.Secret.Version, string(cs.Secret.Value), true}
		}
	}
	hasHandle := map[string]bool{}
	for n := range s.active.f {
		hasHandle[n] = true
	}
	s.active.Unlock()
	for n, r := range real {
		e := h.m[n]
		if !r.ok {
			h.bad("the store knows %q without a complete value", n)
		}
		if e == nil {
			h.bad("the store holds %q (v%d %q), which the model says it must not hold", n, r.ver, r.val)
		}
		if r.ver != e.ver || r.val != e.val {
			h.bad("the store holds v%d %q for %q, the model expects v%d %q", r.ver, r.val, n, e.ver, e.val)
		}
	}
	for n, e := range h.m {
		if _, ok := real[n]; !ok {
			h.bad("the store no longer holds %q (declared=%v handle=%v); the statement does not allow dropping it", n, e.declared, e.handle)
		}
		if !e.declared && e.handle != hasHandle[n] {
			// for an undeclared secret this decides whether it may expire (C19)
			h.bad("the store records handle-handed-out=%v for the undeclared secret %q; in this history it is %v", hasHandle[n], n, e.handle)
		}
	}
	if h.cache == nil {
		return
	}
	raw := h.cache.mem.String()
	if raw == h.rawDoc && !(changed && failedWrites == 0) {
		return // nothing was written
	}
	h.rawDoc = raw
	got, ok := decodeDoc(raw)
	if !ok {
		h.bad("the cache document written by the store is not a well-formed document")
	}
	want := h.snapshot()
	gs, ws, ps := docString(got), docString(want), docString(h.doc)
	switch {
	case changed && failedWrites == 0:
		if gs != ws {
			when := "after an install"
			if h.flushWhen != "" {
				when = h.flushWhen
			}
			h.bad("%s the cache document must hold exactly the store's entries: got %s want %s", when, gs, ws)
		}
	default:
		if gs != ws && gs != ps {
			h.bad("the cache document is neither the previous one nor the current entries: got %s previous %s current %s", gs, ps, ws)
		}
	}
	h.doc = got
}

// ---- store histories --------------------------------------------------------------

func (h *rHarness) isExpired(e *mEntry) bool {
	if e.declared || e.handle || h.expiry <= 0 {
		return false
	}
	if e.lastAccess == 0 {
		return true // never read: older than any age
	}
	return time.Duration(h.clock.Unix()-e.lastAccess)*time.Second > h.expiry
}

func (h *rHarness) sortedNames() []string {
	var names []string
	for n := range h.m {
		names = append(names, n)
	}
	sort.Strings(names)
	return names
}

// peek reports what the service will answer to the next request for name.
func (h *rHarness) peek(name string) (ver api.SecretVersion, val string, ok bool) {
	h.svc.mu.Lock()
	q := h.svc.fail[name]
	dead := h.svc.dead
	h.svc.mu.Unlock()
	if len(q) > 0 || dead {
		return 0, "", false
	}
	return h.svc.activeOf(name)
}

// start constructs the store from the harness configuration and the current
// cache contents, and initialises the model from the statements (C10, C13).
func (h *rHarness) start(what string) {
	h.t.Helper()
	cfg := StoreConfig{Client: h.svc, Secrets: append([]string(nil), h.declared...), AllowLookup: h.lookup, PollInterval: -1, ExpiryAge: h.expiry, Logf: h.logf, TimeNow: h.now}
	initial := ""
	if h.cache != nil {
		cfg.Cache = h.cache
		initial = h.cache.mem.String()
	}
	h.note("%s NewStore(Secrets=%q AllowLookup=%v ExpiryAge=%v cache=`%s`) at t=%d", what, h.declared, h.lookup, h.expiry, initial, h.clock.Unix())
	h.m = map[string]*mEntry{}
	h.handles = map[string]Secret{}
	h.upd = nil
	h.st = nil
	doc, valid := decodeDoc(initial)
	if !valid {
		doc = map[string]rDocEntry{}
	}
	h.doc = doc
	h.rawDoc = initial
	isDeclared := map[string]bool{}
	for _, n := range h.declared {
		isDeclared[n] = true
	}
	for n, e := range doc {
		h.m[n] = &mEntry{ver: e.ver, val: e.val, lastAccess: e.lastAccess, declared: isDeclared[n]}
	}
	var want []string
	for n := range isDeclared {
		if h.m[n] == nil {
			ver, val, ok := h.peek(n)
			if !ok {
				h.t.Fatalf("driver bug: declared secret %q unavailable at construction (declared %q, history %q)", n, h.declared, h.hist)
			}
			h.m[n] = &mEntry{ver: ver, val: val, lastAccess: h.clock.Unix(), declared: true}
			want = append(want, fmt.Sprintf("Get(%s)", n))
		}
	}
	mark := h.svc.beginOp()
	failed := 0
	if h.cache != nil {
		failed = h.cache.failed
	}
	var st *Store
	var err error
	h.must(func() { st, err = NewStore(context.Background(), cfg) })
	if err != nil || st == nil {
		h.bad("NewStore failed although the service can supply every declared secret: %v", err)
	}
	h.st = st
	h.expectCalls(mark, want...)
	if h.cache != nil {
		failed = h.cache.failed - failed
	}
	h.checkState(len(want) > 0, failed)
}

type rPlan struct {
	calls   []string
	fails   []string
	news    map[string]rDocEntry
	drops   []string
	hadFail bool
}

// planRefresh computes, before the call, what a poll must do (C11, C19): one
// conditional request per unexpired secret carrying the held version; expired
// ones are not asked for and are dropped.
func (h *rHarness) planRefresh() *rPlan {
	p := &rPlan{news: map[string]rDocEntry{}}
	for _, n := range h.sortedNames() {
		e := h.m[n]
		if h.isExpired(e) {
			p.drops = append(p.drops, n)
			continue
		}
		p.calls = append(p.calls, fmt.Sprintf("GetIfChanged(%s,%d)", n, e.ver))
		ver, val, ok := h.peek(n)
		switch {
		case !ok:
			p.fails = append(p.fails, n)
		case ver != e.ver:
			p.news[n] = rDocEntry{ver: ver, val: val}
		}
	}
	p.hadFail = len(p.fails) > 0
	return p
}

// settleRefresh applies the plan to the model and compares with the real store.
func (h *rHarness) settleRefresh(p *rPlan, err error, mark, failedBefore int) {
	h.t.Helper()
	h.expectCalls(mark, p.calls...)
	failed := 0
	if h.cache != nil {
		failed = h.cache.failed - failedBefore
	}
	changed := false
	install := func(n string, d rDocEntry) {
		h.m[n].ver, h.m[n].val = d.ver, d.val
		for _, u := range h.upd {
			if u.name == n {
				u.pending = true
			}
		}
		changed = true
	}
	if p.hadFail {
		if err == nil && !h.errUnknown {
			h.bad("Refresh returned nil although the request for %q failed", p.fails)
		}
		// The statement fixes only the failed names (nothing installed); for the
		// others either the old or the newly served version is acceptable.
		h.st.active.Lock()
		real := map[string]api.SecretVersion{}
		for n, cs := range h.st.active.m {
			if cs != nil && cs.Secret != nil {
				real[n] = cs.Secret.Version
			}
		}
		h.st.active.Unlock()
		for n, d := range p.news {
			if v, ok := real[n]; ok && v == d.ver && v != h.m[n].ver {
				install(n, d)
			}
		}
		for _, n := range p.drops {
			if _, ok := real[n]; !ok {
				delete(h.m, n)
				changed = true
			}
		}
		if changed {
			// partial application: either document is acceptable
			failed++
		}
		h.checkState(changed, failed)
		return
	}
	for n, d := range p.news {
		install(n, d)
	}
	for _, n := range p.drops {
		delete(h.m, n)
		changed = true
	}
	if err != nil && failed == 0 {
		h.bad("Refresh failed although every request succeeded: %v", err)
	}
	h.checkState(changed, failed)
	if err == nil && (!h.errUnknown || failed == 0) {
		// C11: a nil Refresh means every held secret is at the service's active version
		for _, n := range h.sortedNames() {
			if n == h.pinnedInFlight {
				continue // pinned while this poll was already in flight: covered from the next poll on
			}
			if ver, val, ok := h.svc.activeOf(n); ok && (h.m[n].ver != ver || h.m[n].val != val) {
				h.bad("Refresh returned nil but %q is at v%d, the service's active version is v%d", n, h.m[n].ver, ver)
			}
		}
	}
}

// rReader is application activity that happens while a request of the store is
// in flight (it runs from inside the scripted service, so the history stays
// sequential): every held handle is read, and optionally a handle is obtained.
type rReader struct {
	fired  bool
	panic  any
	reads  map[string]string
	pin    string
	pinned Secret
}

func (h *rHarness) installReader(pin string) *rReader {
	r := &rReader{reads: map[string]string{}, pin: pin}
	held := map[string]Secret{}
	for n, f := range h.handles {
		held[n] = f
	}
	st := h.st
	h.svc.mu.Lock()
	h.svc.hook = func() {
		r.fired = true
		defer func() { r.panic = recover() }()
		for n, f := range held {
			r.reads[n] = string(f.Get())
		}
		if pin != "" {
			r.pinned = st.Secret(pin)
		}
	}
	h.svc.mu.Unlock()
	return r
}

// settleReader applies the reader's effects to the model; the values it saw are
// those installed before the call in flight (C12).
func (h *rHarness) settleReader(r *rReader, before map[string]string) {
	h.t.Helper()
	h.svc.mu.Lock()
	h.svc.hook = nil
	h.svc.mu.Unlock()
	if !r.fired {
		return
	}
	if r.panic != nil {
		h.bad("panic: %v (in the application's reads while a request was in flight)", r.panic)
	}
	for n, got := range r.reads {
		if got != before[n] {
			h.bad("while a request was in flight the handle for %q returned %q, the value installed at that moment is %q", n, got, before[n])
		}
		if e := h.m[n]; e != nil {
			e.lastAccess = h.clock.Unix()
		}
	}
	if r.pin != "" {
		if r.pinned == nil {
			h.bad("Secret(%q) returned nil for a held secret while a request was in flight", r.pin)
		}
		h.m[r.pin].handle = true
		h.handles[r.pin] = r.pinned
	}
}

func (h *rHarness) valuesNow() map[string]string {
	out := map[string]string{}
	for n, e := range h.m {
		out[n] = e.val
	}
	return out
}

func (h *rHarness) opRefresh(reader bool, pin string) {
	if h.m[pin] == nil {
		pin = ""
	}
	if reader {
		h.note("Refresh() at t=%d [while its first request is in flight the application reads every handle it holds%s]", h.clock.Unix(),
			map[bool]string{true: fmt.Sprintf(" and calls Secret(%q)", pin), false: ""}[pin != ""])
	} else {
		h.note("Refresh() at t=%d", h.clock.Unix())
	}
	p := h.planRefresh()
	before := h.valuesNow()
	var r *rReader
	if reader {
		r = h.installReader(pin)
	}
	mark := h.svc.beginOp()
	failed := 0
	if h.cache != nil {
		failed = h.cache.failed
	}
	var err error
	h.must(func() { err = h.st.Refresh(context.Background()) })
	if r != nil {
		h.settleReader(r, before)
		if r.fired && r.pin != "" {
			// pinned while the poll was in flight: it may not be dropped by this poll
			var keep []string
			for _, n := range p.drops {
				if n != r.pin {
					keep = append(keep, n)
				}
			}
			if len(keep) != len(p.drops) {
				h.pinnedInFlight = r.pin
			}
			p.drops = keep
		}
	}
	h.settleRefresh(p, err, mark, failed)
	h.pinnedInFlight = ""
}

func (h *rHarness) opHandleGet(name string) {
	f := h.handles[name]
	if f == nil {
		return
	}
	h.note("handle(%q).Get() at t=%d", name, h.clock.Unix())
	mark := h.svc.beginOp()
	var got []byte
	h.must(func() { got = f.Get() })
	e := h.m[name]
	if e == nil {
		h.t.Fatalf("driver bug: handle for %q without model entry", name)
	}
	if string(got) != e.val {
		h.bad("handle for %q returned %q, the last value installed is %q (v%d)", name, got, e.val, e.ver)
	}
	e.lastAccess = h.clock.Unix()
	h.expectCalls(mark)
	h.checkState(false, 0)
}

func (h *rHarness) opSecret(name string) {
	h.note("Secret(%q)", name)
	mark := h.svc.beginOp()
	var sec Secret
	p := h.guard(func() { sec = h.st.Secret(name) })
	e := h.m[name]
	switch {
	case e != nil:
		if p != nil {
			h.bad("panic: %v", p)
		}
		if sec == nil {
			h.bad("Secret(%q) returned nil for a secret the store holds", name)
		}
		e.handle = true
		h.handles[name] = sec
	case h.lookup:
		if p != nil {
			h.bad("panic: %v", p)
		}
		if sec != nil {
			h.bad("Secret(%q) returned a handle for a name the store does not hold", name)
		}
	default:
		if p == nil {
			h.bad("Secret(%q) returned (handle=%v) for an unknown name with lookups disabled; it is documented to panic", name, sec != nil)
		}
	}
	h.expectCalls(mark)
	h.checkState(false, 0)
}

func (h *rHarness) opLookup(name string, reader bool) {
	if reader {
		h.note("LookupSecret(%q) at t=%d [while its request is in flight the application reads every handle it holds]", name, h.clock.Unix())
	} else {
		h.note("LookupSecret(%q) at t=%d", name, h.clock.Unix())
	}
	e := h.m[name]
	ver, val, avail := h.peek(name)
	var rd *rReader
	before := h.valuesNow()
	if reader {
		rd = h.installReader("")
	}
	mark := h.svc.beginOp()
	failed := 0
	if h.cache != nil {
		failed = h.cache.failed
	}
	var sec Secret
	var err error
	h.must(func() { sec, err = h.st.LookupSecret(context.Background(), name) })
	if rd != nil {
		h.settleReader(rd, before)
	}
	if h.cache != nil {
		failed = h.cache.failed - failed
	}
	switch {
	case e != nil:
		if err != nil || sec == nil {
			h.bad("LookupSecret(%q) of a held secret: handle=%v err=%v", name, sec != nil, err)
		}
		h.expectCalls(mark)
		e.handle = true
		h.handles[name] = sec
		h.checkState(false, 0)
	case !h.lookup:
		if err == nil || sec != nil {
			h.bad("LookupSecret(%q) with lookups disabled: handle=%v err=%v, want an error", name, sec != nil, err)
		}
		h.expectCalls(mark)
		h.checkState(false, 0)
	case !avail:
		h.expectCalls(mark, fmt.Sprintf("Get(%s)", name))
		if err == nil || sec != nil {
			h.bad("LookupSecret(%q) succeeded although the service's answer was a failure", name)
		}
		h.checkState(false, 0)
	default:
		h.expectCalls(mark, fmt.Sprintf("Get(%s)", name))
		if err != nil || sec == nil {
			h.bad("LookupSecret(%q) failed although the service served v%d: %v", name, ver, err)
		}
		h.m[name] = &mEntry{ver: ver, val: val, lastAccess: h.clock.Unix(), handle: true}
		h.handles[name] = sec
		h.checkState(true, failed)
	}
}

func (h *rHarness) checkUpdater(u *rUpdater) {
	h.t.Helper()
	if u.cur != nil && u.cur.closed != 0 {
		h.bad("updater #%d: the current value (built from %q) has been closed", u.id, u.cur.from)
	}
	for _, o := range u.old {
		if o.closed != 1 {
			h.bad("updater #%d: the replaced value built from %q was closed %d times, want exactly once", u.id, o.from, o.closed)
		}
	}
}

// opNewUpdater creates an updater (C15, C16). If refreshInside is set, the
// builder itself triggers a Refresh while NewUpdater is still running, i.e. an
// install lands between the initial read and NewUpdater's return.
func (h *rHarness) opNewUpdater(name string, refreshInside bool) {
	e := h.m[name]
	if e == nil {
		refreshInside = false
	}
	ru := &rUpdater{id: len(h.upd), name: name}
	h.note("#%d = NewUpdater(%q)%s at t=%d", ru.id, name, map[bool]string{true: " [builder calls Refresh before returning]", false: ""}[refreshInside], h.clock.Unix())
	ver, val, avail := h.peek(name)
	var plan *rPlan
	if e != nil {
		e.handle = true
		e.lastAccess = h.clock.Unix()
		if refreshInside {
			plan = h.planRefresh()
		}
	}
	var seen []string
	var insideErr error
	insideRan := false
	build := func(b []byte) (*rBuilt, error) {
		ru.builds++
		seen = append(seen, string(b))
		ru.seen = string(b)
		if plan != nil && !insideRan {
			insideRan = true
			insideErr = h.st.Refresh(context.Background())
		}
		if strings.HasPrefix(string(b), "!") {
			return nil, errors.New("injected: builder failure")
		}
		ru.last = &rBuilt{from: string(b)}
		return ru.last, nil
	}
	verBefore := api.SecretVersion(0)
	if e != nil {
		verBefore = e.ver
	}
	mark := h.svc.beginOp()
	failed := 0
	if h.cache != nil {
		failed = h.cache.failed
	}
	var u *Updater[*rBuilt]
	var err error
	h.must(func() { u, err = NewUpdater(context.Background(), h.st, name, build) })
	wantVal := ""
	switch {
	case e != nil:
		wantVal = e.val
		if plan != nil {
			if !insideRan {
				h.bad("NewUpdater(%q) did not run the builder", name)
			}
			h.settleRefresh(plan, insideErr, mark, failed)
		} else {
			h.expectCalls(mark)
		}
	case !h.lookup:
		if err == nil || u != nil {
			h.bad("NewUpdater(%q) with lookups disabled succeeded for an unknown name", name)
		}
		if len(seen) != 0 {
			h.bad("NewUpdater(%q) ran the builder although the lookup is not allowed", name)
		}
		h.expectCalls(mark)
		h.checkState(false, 0)
		return
	case !avail:
		h.expectCalls(mark, fmt.Sprintf("Get(%s)", name))
		if err == nil || u != nil {
			h.bad("NewUpdater(%q) succeeded although the lookup failed", name)
		}
		if len(seen) != 0 {
			h.bad("NewUpdater(%q) ran the builder although the lookup failed", name)
		}
		h.checkState(false, 0)
		return
	default:
		h.expectCalls(mark, fmt.Sprintf("Get(%s)", name))
		h.m[name] = &mEntry{ver: ver, val: val, lastAccess: h.clock.Unix(), handle: true}
		wantVal = val
		if h.cache != nil {
			failed = h.cache.failed - failed
		}
		h.checkState(true, failed)
	}
	if len(seen) != 1 || seen[0] != wantVal {
		h.bad("NewUpdater(%q) must build the initial value once from the current bytes %q; builder saw %q", name, wantVal, seen)
	}
	if strings.HasPrefix(wantVal, "!") {
		if err == nil || u != nil {
			h.bad("NewUpdater(%q) succeeded although the builder failed", name)
		}
		if plan == nil {
			h.checkState(false, 0)
		}
		return
	}
	if err != nil || u == nil {
		h.bad("NewUpdater(%q) failed: %v", name, err)
	}
	ru.u = u
	ru.cur = ru.last
	// an install that landed during construction is pending for the first Get
	ru.pending = plan != nil && h.m[name].ver != verBefore
	h.upd = append(h.upd, ru)
	if !ru.pending {
		mark = h.svc.beginOp()
		b0 := ru.builds
		var got *rBuilt
		h.must(func() { got = u.Get() })
		if ru.builds != b0 {
			h.bad("updater #%d: Get right after creation rebuilt the value although nothing was installed", ru.id)
		}
		if got == nil || got != ru.cur {
			h.bad("updater #%d: Get right after creation returned a value built from %q, want the initial value built from %q", ru.id, fromOf(got), wantVal)
		}
		h.expectCalls(mark)
	}
	if plan == nil {
		h.checkState(false, 0)
	}
}

func fromOf(b *rBuilt) string {
	if b == nil {
		return "<nil>"
	}
	return b.from
}

func (h *rHarness) opUpdaterGet(i int) {
	if i >= len(h.upd) {
		return
	}
	ru := h.upd[i]
	e := h.m[ru.name]
	h.note("#%d.Get() at t=%d", ru.id, h.clock.Unix())
	mark := h.svc.beginOp()
	b0 := ru.builds
	var got *rBuilt
	var gerr error
	h.must(func() { got = ru.u.Get(); gerr = ru.u.Err() })
	h.expectCalls(mark)
	if ru.pending {
		ru.pending = false
		if ru.builds != b0+1 {
			h.bad("updater #%d: an install of %q happened since the previous Get, the builder must run exactly once; it ran %d times", ru.id, ru.name, ru.builds-b0)
		}
		e.lastAccess = h.clock.Unix()
		if ru.seen != e.val {
			h.bad("updater #%d: the builder was given %q, the newest installed bytes of %q are %q (v%d)", ru.id, ru.seen, ru.name, e.val, e.ver)
		}
		if strings.HasPrefix(e.val, "!") {
			ru.err = true
			if gerr == nil {
				h.bad("updater #%d: the builder failed on %q but Err() is nil", ru.id, e.val)
			}
			if got != ru.cur {
				h.bad("updater #%d: the builder failed, Get must keep returning the previous value (built from %q); got %q", ru.id, fromOf(ru.cur), fromOf(got))
			}
		} else {
			ru.err = false
			if gerr != nil {
				h.bad("updater #%d: Err() = %v after a successful rebuild", ru.id, gerr)
			}
			if got == nil || got != ru.last || got.from != e.val {
				h.bad("updater #%d: Get returned a value built from %q, the newest installed bytes are %q (v%d)", ru.id, fromOf(got), e.val, e.ver)
			}
			ru.old = append(ru.old, ru.cur)
			ru.cur = got
		}
	} else {
		if ru.builds != b0 {
			h.bad("updater #%d: the builder ran although no install of %q happened since the previous Get", ru.id, ru.name)
		}
		if got != ru.cur {
			h.bad("updater #%d: Get returned a different value (built from %q) although nothing was installed; current is built from %q", ru.id, fromOf(got), fromOf(ru.cur))
		}
		if (gerr != nil) != ru.err {
			h.bad("updater #%d: Err() = %v, the last rebuild failed = %v", ru.id, gerr, ru.err)
		}
	}
	h.checkUpdater(ru)
	h.checkState(false, 0)
}

// opProbe checks C13: a new store built from the cache document, with a service
// that fails every call, serves exactly the document's entries and sends nothing;
// and the file-backed client accepts the same document.
func (h *rHarness) opProbe(dir string) {
	if h.cache == nil {
		return
	}
	text := h.cache.mem.String()
	doc, ok := decodeDoc(text)
	if !ok {
		return
	}
	for _, n := range h.declared {
		if _, ok := doc[n]; !ok {
			return
		}
	}
	h.note("probe: NewStore from the current cache document with an unreachable service")
	dead := newRService(h.now)
	dead.dead = true
	var ps *Store
	var err error
	h.must(func() {
		ps, err = NewStore(context.Background(), StoreConfig{Client: dead, Secrets: append([]string(nil), h.declared...), AllowLookup: true, Cache: NewMemCache(text), PollInterval: -1, Logf: h.logf, TimeNow: h.now})
	})
	if err != nil {
		h.bad("a store could not be started from the cache document with the service unreachable: %v", err)
	}
	if len(dead.calls) != 0 {
		h.bad("a store started from a complete cache contacted the service: %v", dead.calls)
	}
	ps.active.Lock()
	got := map[string]rDocEntry{}
	for n, cs := range ps.active.m {
		if cs == nil || cs.Secret == nil {
			ps.active.Unlock()
			h.bad("the store started from the cache knows %q without a value", n)
		}
		got[n] = rDocEntry{ver: cs.Secret.Version, val: string(cs.Secret.Value), lastAccess: cs.LastAccess}
	}
	ps.active.Unlock()
	if docString(got) != docString(doc) {
		h.bad("the store started from the cache document holds %s, the document says %s", docString(got), docString(doc))
	}
	for n, d := range doc {
		var v []byte
		h.must(func() { v = ps.Secret(n).Get() })
		if string(v) != d.val {
			h.bad("the store started from the cache serves %q for %q, the document holds %q", v, n, d.val)
		}
	}
	h.must(func() { ps.Close() })
	if dir != "" {
		p := filepath.Join(dir, "cache.json")
		if err := os.WriteFile(p, []byte(text), 0600); err != nil {
			h.t.Fatalf("write %s: %v", p, err)
		}
		var fc *FileClient
		h.must(func() { fc, err = NewFileClient(p) })
		if err != nil {
			h.bad("the file-backed client rejects the cache document: %v", err)
		}
		for n, d := range doc {
			if d.val == "" || d.ver == 0 {
				continue
			}
			var sv *api.SecretValue
			h.must(func() { sv, err = fc.Get(context.Background(), n) })
			if err != nil || sv == nil || string(sv.Value) != d.val || sv.Version != d.ver {
				h.bad("the file-backed client serves %+v (err %v) for %q, the document holds v%d %q", sv, err, n, d.ver, d.val)
			}
		}
	}
}

func (h *rHarness) opRestart(replace *string) {
	h.note("Close()")
	h.must(func() { h.st.Close() })
	for _, n := range h.sortedNames() {
		if f := h.handles[n]; f != nil {
			var got []byte
			h.must(func() { got = f.Get() })
			if string(got) != h.m[n].val {
				h.bad("after Close the handle for %q returned %q, want %q", n, got, h.m[n].val)
			}
		}
	}
	if h.cache != nil && replace != nil {
		h.note("the cache contents are replaced by `%s`", *replace)
		h.cache.mem = NewMemCache(*replace)
	}
	h.svc.mu.Lock()
	h.svc.fail = map[string][]string{}
	h.svc.mu.Unlock()
	h.start("restart:")
}

func (h *rHarness) finish() {
	for _, n := range h.sortedNames() {
		if h.handles[n] != nil {
			h.opHandleGet(n)
		}
	}
	for i, u := range h.upd {
		if u.u != nil {
			h.opUpdaterGet(i)
		}
	}
	h.must(func() { h.st.Close() })
	h.st = nil
}

// rWeights biases the random choice of operations toward the focus function.
type rWeights struct {
	refresh, change, advance, fail, failCache, handle, secret, lookup, newUpd, updGet, restart, corrupt, probe int
}

func weightsFor(focus string) rWeights {
	w := rWeights{refresh: 10, change: 10, advance: 5, fail: 3, failCache: 2, handle: 6, secret: 4, lookup: 5, newUpd: 4, updGet: 7, restart: 2, corrupt: 1, probe: 1}
	f := strings.ToLower(focus)
	has := func(subs ...string) bool {
		for _, s := range subs {
			if strings.Contains(f, strings.ToLower(s)) {
				return true
			}
		}
		return false
	}
	switch {
	case has("updater", "notify", "lookupWatcher", "Ready"):
		w.newUpd, w.updGet, w.refresh, w.change, w.failCache = 10, 20, 14, 14, 4
	case has("lookupSecret", ".Secret)", "secretOrNil", "secretLocked", ".Secret"):
		w.lookup, w.secret, w.fail, w.handle = 16, 10, 8, 8
	case has("hasExpired", "snapshotActive", "lastAccessTime"):
		w.advance, w.refresh, w.lookup, w.restart = 14, 16, 8, 5
	case has("flushCache", "MemCache", "loadCache", "isActiveSetValid", "FileCache"):
		w.failCache, w.restart, w.corrupt, w.probe, w.refresh = 6, 4, 3, 3, 12
	case has("poll", "applyUpdates", "Refresh"):
		w.refresh, w.change, w.fail, w.advance, w.failCache = 20, 16, 6, 8, 4
	case has("NewStore", "initializeActive", "secretNames"):
		w.restart, w.corrupt, w.probe = 8, 5, 4
	}
	return w
}

func (w rWeights) pick(rng *rand.Rand) string {
	tab := []struct {
		n string
		w int
	}{{"refresh", w.refresh}, {"change", w.change}, {"advance", w.advance}, {"fail", w.fail}, {"failCache", w.failCache}, {"handle", w.handle}, {"secret", w.secret},
		{"lookup", w.lookup}, {"newUpd", w.newUpd}, {"updGet", w.updGet}, {"restart", w.restart}, {"corrupt", w.corrupt}, {"probe", w.probe}}
	total := 0
	for _, e := range tab {
		total += e.w
	}
	r := rng.Intn(total)
	for _, e := range tab {
		if r < e.w {
			return e.n
		}
		r -= e.w
	}
	return "refresh"
}

var rCorruptDocs = []string{
	"null", "{}", "{", "garbage", `[]`, `"x"`, `{"":{"secret":{"Value":"eA==","Version":1},"lastAccess":"0"}}`,
	`{"a":null}`, `{"a":{"secret":null,"lastAccess":"0"}}`, `{"a":{"lastAccess":"5"}}`,
	// a JSON type mismatch in one field while every entry has a "secret" object
	`{"a":{"secret":{"Value":"b2xkLWE=","Version":7},"lastAccess":5},"b":{"secret":{"Value":"b2xkLWI=","Version":7},"lastAccess":"5"},"c":{"secret":{"Value":"b2xkLWM=","Version":7},"lastAccess":"5"}}`,
	`{"a":{"secret":{"Value":"b2xkLWE=","Version":"x"},"lastAccess":"5"},"b":{"secret":{"Value":"b2xkLWI=","Version":7},"lastAccess":"5"}}`,
	`{"a":{"secret":{"Value":"b2xkLWE=","Version":7},"lastAccess":"5"},"b":{"secret":{"Value":"b2xkLWI=","Version":7},"lastAccess":"5"}} trailing`,
	`{"a":{"secret":{"Value":"b2xkLWE=","Version":7},"lastAccess":"5"},"b":{"secret":null}}`,
}

// runHistory executes one random history against a fresh store.
func runHistory(t *testing.T, rng *rand.Rand, w rWeights, dir string) {
	h := &rHarness{t: t, clock: time.Unix(1000000, 0).UTC()}
	h.svc = newRService(h.now)
	pool := []string{"a", "b", "c", "d", "e"}
	seq := 0
	newVal := func() string {
		seq++
		switch rng.Intn(12) {
		case 0:
			return ""
		case 1, 2:
			return fmt.Sprintf("!bad%d", seq)
		}
		return fmt.Sprintf("val%d", seq)
	}
	// service: a..d exist (e appears later or never)
	for _, n := range pool[:4] {
		for k := 0; k <= rng.Intn(2); k++ {
			h.svc.put(n, newVal())
		}
	}
	h.note("service holds %s", svcString(h.svc))
	// configuration
	nd := 1 + rng.Intn(2)
	h.declared = append([]string(nil), pool[:nd]...)
	if rng.Intn(4) == 0 {
		h.declared = append(h.declared, h.declared[0]) // duplicate, not adjacent once sorted input differs
		h.declared = append([]string{pool[nd-1]}, h.declared...)
	}
	h.lookup = rng.Intn(4) != 0
	h.expiry = []time.Duration{0, -5 * time.Second, 10 * time.Second, 100 * time.Second, 10 * time.Second}[rng.Intn(5)]
	if rng.Intn(8) != 0 {
		initial := ""
		if rng.Intn(2) == 0 {
			// a valid document with a mix of declared and undeclared entries
			doc := map[string]rDocEntry{}
			for _, n := range pool[:4] {
				if rng.Intn(2) == 0 {
					la := []int64{0, h.clock.Unix() - 5, h.clock.Unix() - 50, h.clock.Unix() - 500}[rng.Intn(4)]
					ver, val, _ := h.svc.activeOf(n)
					if rng.Intn(2) == 0 {
						ver, val = ver+5, "cached-"+n
					}
					doc[n] = rDocEntry{ver: ver, val: val, lastAccess: la}
				}
			}
			initial = encodeDoc(doc)
		} else if rng.Intn(3) == 0 {
			initial = rCorruptDocs[rng.Intn(len(rCorruptDocs))]
		}
		h.cache = &rCache{mem: NewMemCache(initial)}
	}
	h.start("")
	steps := 4 + rng.Intn(14)
	for i := 0; i < steps; i++ {
		name := pool[rng.Intn(len(pool))]
		switch w.pick(rng) {
		case "refresh":
			h.opRefresh(rng.Intn(4) == 0, []string{"", name}[rng.Intn(2)])
		case "change":
			switch r := rng.Intn(10); {
			case r < 6:
				v := newVal()
				ver := h.svc.put(name, v)
				h.note("service: %q gets new active version v%d %q", name, ver, v)
			case r < 9:
				h.svc.mu.Lock()
				if s := h.svc.secrets[name]; s != nil && !s.gone && len(s.vers) > 1 {
					s.active = 1 + rng.Intn(len(s.vers))
					h.note("service: %q active version set to v%d %q", name, s.active, s.vers[s.active-1])
				}
				h.svc.mu.Unlock()
			default:
				isDecl := false
				for _, d := range h.declared {
					isDecl = isDecl || d == name
				}
				if !isDecl {
					h.svc.mu.Lock()
					if s := h.svc.secrets[name]; s != nil && !s.gone {
						s.gone = true
						h.note("service: %q deleted", name)
					}
					h.svc.mu.Unlock()
				}
			}
		case "advance":
			d := []int{1, 4, 7, 11, 60, 101, 1000}[rng.Intn(7)]
			h.clock = h.clock.Add(time.Duration(d) * time.Second)
			h.note("clock advances %ds to t=%d", d, h.clock.Unix())
		case "fail":
			kind := []string{"err", "err", "notfound", "deadline"}[rng.Intn(4)]
			h.svc.mu.Lock()
			h.svc.fail[name] = append(h.svc.fail[name], kind)
			h.svc.mu.Unlock()
			h.note("service: the next request for %q fails (%s)", name, kind)
		case "failCache":
			if h.cache != nil {
				h.cache.failNext++
				h.note("cache: the next write fails")
			}
		case "handle":
			h.opHandleGet(name)
		case "secret":
			h.opSecret(name)
		case "lookup":
			h.opLookup(name, rng.Intn(3) == 0)
		case "newUpd":
			h.opNewUpdater(name, rng.Intn(3) == 0)
		case "updGet":
			if len(h.upd) > 0 {
				h.opUpdaterGet(rng.Intn(len(h.upd)))
			}
		case "restart":
			h.opRestart(nil)
		case "corrupt":
			if h.cache != nil {
				c := rCorruptDocs[rng.Intn(len(rCorruptDocs))]
				h.opRestart(&c)
			}
		case "probe":
			h.opProbe(dir)
		}
	}
	h.finish()
}

func svcString(v *rService) string {
	v.mu.Lock()
	defer v.mu.Unlock()
	var names []string
	for n := range v.secrets {
		names = append(names, n)
	}
	sort.Strings(names)
	var sb strings.Builder
	for _, n := range names {
		s := v.secrets[n]
		if s.gone {
			continue
		}
		fmt.Fprintf(&sb, "%q{active=v%d", n, s.active)
		for i, x := range s.vers {
			fmt.Fprintf(&sb, " v%d:%q", i+1, x)
		}
		sb.WriteString("} ")
	}
	return sb.String()
}

// ---- construction (C10, C13, C20) ----------------------------------------------------

type rStructA struct {
	B     []byte `setec:"fb"`
	S     string `setec:"fs"`
	H     Secret `setec:"fh"`
	Plain int
}

// runConstruction builds one store from a random configuration, cache document,
// failure script and context, and compares the outcome with C10.
func runConstruction(t *testing.T, rng *rand.Rand) {
	h := &rHarness{t: t, clock: time.Unix(1000000, 0).UTC()}
	h.svc = newRService(h.now)
	pool := []string{"a", "b", "c", "pre/fb", "pre/fs", "pre/fh"}
	for i, n := range pool {
		h.svc.put(n, fmt.Sprintf("old%d", i))
		h.svc.put(n, fmt.Sprintf("val%d", i))
	}
	absent := ""
	if rng.Intn(6) == 0 {
		absent = pool[rng.Intn(3)]
		h.svc.secrets[absent].gone = true
	}
	client := "service"
	switch rng.Intn(12) {
	case 0:
		client = "nil"
	case 1, 2:
		client = "file"
	}
	var secrets []string
	for i, k := 0, rng.Intn(5); i < k; i++ {
		secrets = append(secrets, pool[rng.Intn(3)])
	}
	if rng.Intn(12) == 0 {
		secrets = append(secrets, "")
		rng.Shuffle(len(secrets), func(i, j int) { secrets[i], secrets[j] = secrets[j], secrets[i] })
	}
	var sa *rStructA
	if rng.Intn(4) == 0 {
		sa = &rStructA{Plain: 42}
	}
	h.lookup = rng.Intn(3) == 0
	declSet := map[string]bool{}
	hasEmpty := false
	for _, n := range secrets {
		declSet[n] = true
		hasEmpty = hasEmpty || n == ""
	}
	if sa != nil {
		declSet["pre/fb"], declSet["pre/fs"], declSet["pre/fh"] = true, true, true
	}
	for n := range declSet {
		h.declared = append(h.declared, n)
	}
	sort.Strings(h.declared)
	// cache document
	useCache := rng.Intn(6) != 0
	initial := ""
	if useCache {
		switch rng.Intn(6) {
		case 0:
			initial = ""
		case 1:
			initial = rCorruptDocs[rng.Intn(len(rCorruptDocs))]
		case 2, 3: // partial
			doc := map[string]rDocEntry{}
			for _, n := range pool {
				if rng.Intn(2) == 0 {
					doc[n] = rDocEntry{ver: 1, val: "cached-" + n, lastAccess: 5}
				}
			}
			initial = encodeDoc(doc)
		default: // complete, plus undeclared entries
			doc := map[string]rDocEntry{"zz": {ver: 3, val: "cached-zz", lastAccess: 0}}
			for n := range declSet {
				if n != "" {
					doc[n] = rDocEntry{ver: 1, val: "cached-" + n, lastAccess: 7}
				}
			}
			initial = encodeDoc(doc)
		}
		h.cache = &rCache{mem: NewMemCache(initial)}
	}
	doc, valid := decodeDoc(initial)
	if !valid {
		doc = map[string]rDocEntry{}
	}
	h.doc, h.rawDoc = doc, initial
	var needed []string
	for _, n := range h.declared {
		if _, ok := doc[n]; !ok && n != "" {
			needed = append(needed, n)
		}
	}
	// failure script and context
	fails := map[string]int{}
	if client == "service" {
		for _, n := range needed {
			if rng.Intn(3) == 0 {
				fails[n] = 1 + rng.Intn(2)
				for i := 0; i < fails[n]; i++ {
					h.svc.fail[n] = append(h.svc.fail[n], []string{"err", "notfound"}[rng.Intn(2)])
				}
			}
		}
	}
	ctxKind := "background"
	cancelAt := 0
	switch r := rng.Intn(8); {
	case r == 0:
		ctxKind = "already cancelled"
	case r <= 2:
		cancelAt = 1 + rng.Intn(4)
		ctxKind = fmt.Sprintf("cancelled during request #%d", cancelAt)
	}
	needsAbsent := false
	for _, n := range needed {
		needsAbsent = needsAbsent || n == absent
	}
	if needsAbsent && client == "service" && cancelAt == 0 && ctxKind == "background" {
		// a declared secret the service never has: construction can only end with the context
		cancelAt = 1 + rng.Intn(4)
		ctxKind = fmt.Sprintf("cancelled during request #%d", cancelAt)
	}
	if client == "file" {
		ctxKind, cancelAt = "background", 0
	}
	ctx, cancel := context.WithCancel(context.Background())
	defer cancel()
	if ctxKind == "already cancelled" {
		cancel()
	}
	cfg := StoreConfig{Secrets: append([]string(nil), secrets...), AllowLookup: h.lookup, PollInterval: -1, Logf: h.logf, TimeNow: h.now}
	if h.cache != nil {
		cfg.Cache = h.cache
	}
	if sa != nil {
		cfg.Structs = []Struct{{Value: sa, Prefix: "pre"}}
	}
	fileDB := map[string]*api.SecretValue{}
	switch client {
	case "service":
		cfg.Client = h.svc
		h.svc.cancelAt, h.svc.cancel = cancelAt, cancel
	case "file":
		for _, n := range pool {
			if ver, val, ok := h.svc.activeOf(n); ok {
				fileDB[n] = &api.SecretValue{Value: []byte(val), Version: ver}
			}
		}
		cfg.Client = &FileClient{path: "(replay)", db: fileDB}
	}
	h.note("service holds %s; scripted failures before success: %v", svcString(h.svc), fails)
	h.note("NewStore(client=%s Secrets=%q struct-tagged=%v AllowLookup=%v cache=`%s` context=%s)", client, secrets, sa != nil, h.lookup, initial, ctxKind)

	// ---- expected outcome ----
	h.m = map[string]*mEntry{}
	h.handles = map[string]Secret{}
	wantErr := ""
	var wantCalls []string
	exactCalls := true
	maxCalls := -1
	switch {
	case client == "nil":
		wantErr = "no client is configured"
	case hasEmpty:
		wantErr = "an empty secret name is declared"
	case len(declSet) == 0 && !h.lookup:
		wantErr = "no secrets are declared and lookups are not allowed"
	default:
		for n, e := range doc {
			h.m[n] = &mEntry{ver: e.ver, val: e.val, lastAccess: e.lastAccess, declared: declSet[n]}
		}
		total := 0
		for _, n := range needed {
			total += fails[n] + 1
		}
		switch {
		case len(needed) == 0:
			// a complete cache: no request at all, whatever the context
		case client == "file":
			if needsAbsent {
				wantErr = fmt.Sprintf("the file-backed client does not have %q", absent)
			}
		case ctxKind == "already cancelled":
			wantErr = "the context has ended"
			exactCalls, maxCalls = false, 1
		case cancelAt != 0 && (needsAbsent || total >= cancelAt):
			wantErr = "the context ended during construction"
			exactCalls, maxCalls = false, cancelAt
		}
		if wantErr == "" {
			for _, n := range needed {
				ver, val, _ := h.svc.activeOf(n)
				h.m[n] = &mEntry{ver: ver, val: val, lastAccess: h.clock.Unix(), declared: true}
				if client == "service" {
					for i := 0; i <= fails[n]; i++ {
						wantCalls = append(wantCalls, fmt.Sprintf("Get(%s)", n))
					}
				}
			}
		}
	}
	mark := h.svc.beginOp()
	var st *Store
	var err error
	var deadline context.Context
	if client == "file" {
		var c2 context.CancelFunc
		deadline, c2 = context.WithTimeout(ctx, 250*time.Millisecond)
		defer c2()
		h.must(func() { st, err = NewStore(deadline, cfg) })
	} else {
		h.must(func() { st, err = NewStore(ctx, cfg) })
	}
	if st != nil {
		h.st = st
		defer st.Close()
	}
	if !sameStrings(cfg.Secrets, secrets) {
		// the caller still holds this slice: a retry with the same configuration must see the same names (F11)
		h.bad("NewStore modified the caller's configuration: Secrets was %q and is now %q", secrets, cfg.Secrets)
	}
	if wantErr != "" {
		if err == nil {
			h.bad("NewStore succeeded although %s", wantErr)
		}
		if st != nil {
			h.bad("NewStore returned both a store and an error (%v)", err)
		}
		if client == "file" && deadline.Err() != nil {
			h.bad("NewStore with a file-backed client lacking a declared secret must fail at once; it kept waiting until its context ended (%v)", err)
		}
		got := stripTimes(h.svc.callsSince(mark))
		switch {
		case exactCalls && len(got) != 0:
			h.bad("NewStore must fail without contacting the service when %s; it sent %v", wantErr, got)
		case !exactCalls && len(got) > maxCalls:
			h.bad("NewStore must return promptly once %s; it sent %d requests %v (at most %d expected)", wantErr, len(got), got, maxCalls)
		case !exactCalls && cancelAt != 0 && len(got) < cancelAt:
			h.bad("NewStore failed (%v) after %d requests although its context was still alive and the service had not yet been given the chance to answer", err, len(got))
		}
		// never re-fetch a secret already obtained
		count := map[string]int{}
		for _, c := range got {
			count[c]++
		}
		for _, n := range needed {
			if n != absent && count[fmt.Sprintf("Get(%s)", n)] > fails[n]+1 {
				h.bad("NewStore fetched %q again after it had been obtained (%d requests, %d scripted failures)", n, count[fmt.Sprintf("Get(%s)", n)], fails[n])
			}
		}
		return
	}
	if err != nil || st == nil {
		h.bad("NewStore failed although every declared secret is available (from the cache or the service): %v", err)
	}
	if client == "service" {
		h.expectCalls(mark, wantCalls...)
	}
	failed := 0
	if h.cache != nil {
		failed = h.cache.failed
	}
	if sa != nil {
		// populating the struct hands out handles (after the cache was written)
		for _, n := range []string{"pre/fb", "pre/fs", "pre/fh"} {
			h.m[n].handle = true
		}
	}
	h.checkState(len(needed) > 0, failed)
	if sa != nil {
		h.m["pre/fb"].lastAccess, h.m["pre/fs"].lastAccess = h.clock.Unix(), h.clock.Unix()
	}
	mark = h.svc.beginOp()
	if sa != nil {
		for _, f := range []struct{ field, name, got string }{{"B", "pre/fb", string(sa.B)}, {"S", "pre/fs", sa.S}, {"H", "pre/fh", string(sa.H.Get())}} {
			if f.got != h.m[f.name].val {
				h.bad("struct field %s (secret %q) holds %q, the store's value is %q", f.field, f.name, f.got, h.m[f.name].val)
			}
		}
		if sa.Plain != 42 {
			h.bad("an untagged struct field was modified")
		}
		for i := range sa.B {
			sa.B[i] = '#'
		}
		h.note("the []byte field of the struct is overwritten in place")
	}
	for _, n := range h.declared {
		var got []byte
		h.must(func() { got = st.Secret(n).Get() })
		if string(got) != h.m[n].val {
			h.bad("Secret(%q).Get() = %q, want %q", n, got, h.m[n].val)
		}
		h.m[n].handle, h.m[n].lastAccess = true, h.clock.Unix()
	}
	h.expectCalls(mark)
	h.checkState(false, 0)
}

// ---- struct fields (C20, C16) -----------------------------------------------------------

type rBin struct {
	got   string
	calls int
}

func (b *rBin) UnmarshalBinary(d []byte) error {
	if strings.HasPrefix(string(d), "!") {
		return errors.New("injected: value rejected by UnmarshalBinary")
	}
	b.got = string(d)
	b.calls++
	return nil
}

type rJSONVal struct {
	A string `json:"a"`
	N int    `json:"n"`
}

type rEmbedded struct {
	E string `setec:"fe"`
}

type rFieldsAll struct {
	Untagged string
	B        []byte `setec:"fb"`
	S        string `setec:"fs"`
	H        Secret `setec:"fh"`
	rEmbedded
	U     rBin      `setec:"fu"`
	P     *rBin     `setec:"fp"`
	J     rJSONVal  `setec:"fj,json"`
	JP    *rJSONVal `setec:"fjp,json"`
	Other int
}

var rFieldTags = []struct{ tag, kind string }{{"fb", "bytes"}, {"fs", "string"}, {"fh", "secret"}, {"fe", "string-embedded"}, {"fu", "binary"}, {"fp", "binary-ptr"}, {"fj", "json"}, {"fjp", "json-ptr"}}

func (v *rFieldsAll) read(tag string) (string, bool) {
	switch tag {
	case "fb":
		return string(v.B), v.B != nil
	case "fs":
		return v.S, v.S != "\x00unset"
	case "fh":
		if v.H == nil {
			return "", false
		}
		return string(v.H.Get()), true
	case "fe":
		return v.E, v.E != "\x00unset"
	case "fu":
		return v.U.got, v.U.calls > 0
	case "fp":
		if v.P == nil {
			return "", false
		}
		return v.P.got, v.P.calls > 0
	case "fj":
		return fmt.Sprintf(`{"a":%q,"n":%d}`, v.J.A, v.J.N), v.J != rJSONVal{}
	case "fjp":
		if v.JP == nil {
			return "", false
		}
		return fmt.Sprintf(`{"a":%q,"n":%d}`, v.JP.A, v.JP.N), true
	}
	return "", false
}

// parseFieldsRejects: arguments ParseFields must reject with an error, never a panic.
func parseFieldsRejects(h *rHarness) {
	type noTags struct{ A string }
	type emptyName struct {
		A string `setec:""`
	}
	type emptyNameJSON struct {
		A string `setec:",json"`
	}
	type badType struct {
		A int `setec:"x"`
	}
	type badType2 struct {
		OK string         `setec:"ok"`
		A  map[string]int `setec:"x"`
	}
	var nilStruct *rFieldsAll
	var nilIface any
	cases := []struct {
		desc string
		v    any
	}{{"nil", nilIface}, {"a nil *struct", nilStruct}, {"a struct value (not a pointer)", rFieldsAll{}}, {"an int", 5}, {"a *int", new(int)}, {"a nil *int", (*int)(nil)},
		{"a pointer to a struct without tagged fields", &noTags{}}, {"a field tagged with an empty name", &emptyName{}}, {"a json field tagged with an empty name", &emptyNameJSON{}},
		{"a tagged field of unsupported type int", &badType{}}, {"a tagged field of unsupported type map", &badType2{}}, {"a string", "x"}, {"a pointer to a pointer to a struct", new(*rFieldsAll)}}
	for _, c := range cases {
		for _, prefix := range []string{"", "pre"} {
			h.hist = []string{fmt.Sprintf("ParseFields(%s, %q)", c.desc, prefix)}
			var fs *Fields
			var err error
			h.must(func() { fs, err = ParseFields(c.v, prefix) })
			if err == nil || fs != nil {
				h.bad("ParseFields accepted %s (fields=%v err=%v); it must report an error", c.desc, fs != nil, err)
			}
		}
	}
	h.hist = nil
}

func runFields(t *testing.T, rng *rand.Rand) {
	h := &rHarness{t: t, clock: time.Unix(1000000, 0).UTC()}
	h.svc = newRService(h.now)
	prefix := []string{"", "pre", "pre/x"}[rng.Intn(3)]
	seq := 0
	valueFor := func(kind string) string {
		seq++
		switch {
		case strings.HasPrefix(kind, "json"):
			if rng.Intn(8) == 0 {
				return "not json"
			}
			return fmt.Sprintf(`{"a":"s%d","n":%d}`, seq, seq)
		case strings.HasPrefix(kind, "binary") && rng.Intn(8) == 0:
			return fmt.Sprintf("!rejected%d", seq)
		case rng.Intn(15) == 0 && kind != "bytes":
			return ""
		}
		return fmt.Sprintf("val%d", seq)
	}
	full := map[string]string{}
	kindOf := map[string]string{}
	for _, f := range rFieldTags {
		n := path.Join(prefix, f.tag)
		full[f.tag], kindOf[n] = n, f.kind
		if rng.Intn(7) != 0 {
			h.svc.put(n, valueFor(f.kind))
		}
	}
	h.svc.put("a", "val-a")
	h.lookup = rng.Intn(3) != 0
	viaConfig := rng.Intn(4) == 0
	v := &rFieldsAll{Untagged: "keep", Other: 7, S: "\x00unset"}
	v.E = "\x00unset"
	h.note("service holds %s", svcString(h.svc))
	if viaConfig {
		// every tagged secret must exist for construction to end
		for _, f := range rFieldTags {
			if _, _, ok := h.svc.activeOf(full[f.tag]); !ok {
				h.svc.put(full[f.tag], valueFor(f.kind))
			}
		}
		h.note("service now holds %s", svcString(h.svc))
	}
	h.declared = []string{"a"}
	for _, f := range rFieldTags {
		if viaConfig || rng.Intn(3) == 0 {
			if _, _, ok := h.svc.activeOf(full[f.tag]); ok {
				h.declared = append(h.declared, full[f.tag])
			}
		}
	}
	h.cache = &rCache{mem: NewMemCache("")}
	h.m = map[string]*mEntry{}
	h.handles = map[string]Secret{}
	cfg := StoreConfig{Client: h.svc, AllowLookup: h.lookup, Cache: h.cache, PollInterval: -1, Logf: h.logf, TimeNow: h.now}
	if viaConfig {
		cfg.Secrets = []string{"a"}
		cfg.Structs = []Struct{{Value: v, Prefix: prefix}}
		h.note("NewStore(Secrets=[\"a\"] Structs=[{all field kinds, Prefix=%q}] AllowLookup=%v)", prefix, h.lookup)
	} else {
		cfg.Secrets = append([]string(nil), h.declared...)
		h.note("NewStore(Secrets=%q AllowLookup=%v)", h.declared, h.lookup)
	}
	var wantCalls []string
	for _, n := range h.declared {
		ver, val, _ := h.svc.activeOf(n)
		h.m[n] = &mEntry{ver: ver, val: val, lastAccess: h.clock.Unix(), declared: true}
		wantCalls = append(wantCalls, fmt.Sprintf("Get(%s)", n))
	}
	mark := h.svc.beginOp()
	var st *Store
	var err error
	h.must(func() { st, err = NewStore(context.Background(), cfg) })
	decodeFails := func(n string) bool {
		val := h.m[n].val
		switch k := kindOf[n]; {
		case strings.HasPrefix(k, "json"):
			return !json.Valid([]byte(val))
		case strings.HasPrefix(k, "binary"):
			return strings.HasPrefix(val, "!")
		}
		return false
	}
	wantErr := false
	applied := false
	populated := map[string]bool{}
	if viaConfig {
		h.expectCalls(mark, wantCalls...)
		for _, f := range rFieldTags {
			if decodeFails(full[f.tag]) {
				wantErr = true
			}
		}
		if wantErr {
			if err == nil {
				h.bad("NewStore succeeded although a tagged field could not be decoded from its secret")
			}
			return
		}
		if err != nil || st == nil {
			h.bad("NewStore failed: %v", err)
		}
		h.st = st
		defer st.Close()
		for _, f := range rFieldTags {
			h.m[full[f.tag]].handle = true
			populated[f.tag] = true
		}
	} else {
		if err != nil || st == nil {
			h.bad("NewStore failed: %v", err)
		}
		h.st = st
		defer st.Close()
		h.expectCalls(mark, wantCalls...)
		h.checkState(true, 0)
		var fs *Fields
		h.must(func() { fs, err = ParseFields(v, prefix) })
		if err != nil || fs == nil {
			h.bad("ParseFields rejected a struct with supported tagged fields: %v", err)
		}
		var names, wantNames []string
		h.must(func() { names = fs.Secrets() })
		for _, f := range rFieldTags {
			wantNames = append(wantNames, full[f.tag])
		}
		if !sameStrings(names, wantNames) {
			h.bad("Fields.Secrets() = %q, want %q (prefix/name for each tagged field)", names, wantNames)
		}
		h.note("ParseFields(&struct{all field kinds}, %q).Apply(store)", prefix)
		wantCalls = nil
		installed := false
		for _, f := range rFieldTags {
			n := full[f.tag]
			switch e := h.m[n]; {
			case e != nil:
				e.handle = true
			case !h.lookup:
				wantErr = true
				continue
			default:
				wantCalls = append(wantCalls, fmt.Sprintf("Get(%s)", n))
				ver, val, ok := h.peek(n)
				if !ok {
					wantErr = true
					continue
				}
				h.m[n] = &mEntry{ver: ver, val: val, lastAccess: h.clock.Unix(), handle: true}
				installed = true
			}
			if decodeFails(n) {
				wantErr = true
				continue
			}
			populated[f.tag] = true
		}
		mark = h.svc.beginOp()
		h.must(func() { err = fs.Apply(context.Background(), st) })
		h.expectCalls(mark, wantCalls...)
		if (err != nil) != wantErr {
			h.bad("Apply returned err=%v; the model expects an error: %v (a field whose secret is unknown, unavailable or undecodable must be reported, and only that)", err, wantErr)
		}
		applied = installed
	}
	// field contents
	for _, f := range rFieldTags {
		got, set := v.read(f.tag)
		n := full[f.tag]
		if !populated[f.tag] {
			if set && f.kind != "binary-ptr" && f.kind != "json-ptr" && !strings.HasPrefix(f.kind, "json") && f.kind != "secret" {
				h.bad("field for %q was modified although its secret could not be applied", n)
			}
			if f.kind == "secret" && set && h.m[n] == nil {
				h.bad("field for %q received a handle although the store does not hold that secret", n)
			}
			continue
		}
		want := h.m[n].val
		if !set && want != "" {
			h.bad("field for %q (%s) was not populated; the store holds %q (a failure on another field must not prevent this one)", n, f.kind, want)
		}
		if got != want && !(f.kind == "bytes" && want == "" && got == "") {
			h.bad("field for %q (%s) holds %q, the secret's value is %q", n, f.kind, got, want)
		}
		if f.kind != "secret" {
			h.m[n].lastAccess = h.clock.Unix()
		}
	}
	if v.H != nil && h.m[full["fh"]] != nil {
		h.m[full["fh"]].lastAccess = h.clock.Unix() // read by the check above
	}
	if v.Untagged != "keep" || v.Other != 7 {
		h.bad("untagged fields were modified")
	}
	h.checkState(applied, 0)
	// a []byte field is a private copy
	if populated["fb"] && len(v.B) > 0 {
		for i := range v.B {
			v.B[i] = '#'
		}
		h.note("the []byte field is overwritten in place with '#'")
		n := full["fb"]
		var got []byte
		mark = h.svc.beginOp()
		h.must(func() { got = st.Secret(n).Get() })
		if string(got) != h.m[n].val {
			h.bad("after overwriting the populated []byte field, Secret(%q).Get() returns %q; the service served %q", n, got, h.m[n].val)
		}
		h.expectCalls(mark)
	}
	h.checkState(false, 0)
}

// ---- background poller (C11, C13) ---------------------------------------------------------

type rTicker struct {
	ch      chan time.Time
	done    chan struct{}
	stopped bool
}

func (t *rTicker) Chan() <-chan time.Time { return t.ch }
func (t *rTicker) Stop()                  { t.stopped = true }
func (t *rTicker) Done()                  { t.done <- struct{}{} }

// runPoller drives a store whose polls are triggered through a PollTicker, with
// injected cache write failures, and checks the shutdown flush.
func runPoller(t *testing.T, rng *rand.Rand, dir string) {
	h := &rHarness{t: t, clock: time.Unix(1000000, 0).UTC(), errUnknown: true}
	h.svc = newRService(h.now)
	pool := []string{"a", "b", "c"}
	seq := 0
	for _, n := range pool {
		seq++
		h.svc.put(n, fmt.Sprintf("val%d", seq))
	}
	h.declared = []string{"a", "b"}
	h.lookup = true
	h.expiry = []time.Duration{0, 10 * time.Second}[rng.Intn(2)]
	h.cache = &rCache{mem: NewMemCache("")}
	tk := &rTicker{ch: make(chan time.Time), done: make(chan struct{}, 1)}
	h.note("service holds %s", svcString(h.svc))
	h.note("NewStore(Secrets=%q AllowLookup=true ExpiryAge=%v PollTicker=<controlled>) at t=%d", h.declared, h.expiry, h.clock.Unix())
	h.m = map[string]*mEntry{}
	h.handles = map[string]Secret{}
	for _, n := range h.declared {
		ver, val, _ := h.svc.activeOf(n)
		h.m[n] = &mEntry{ver: ver, val: val, lastAccess: h.clock.Unix(), declared: true}
	}
	var st *Store
	var err error
	h.must(func() {
		st, err = NewStore(context.Background(), StoreConfig{Client: h.svc, Secrets: []string{"a", "b"}, AllowLookup: true, Cache: h.cache, ExpiryAge: h.expiry, PollTicker: tk, Logf: h.logf, TimeNow: h.now})
	})
	if err != nil {
		h.bad("NewStore failed: %v", err)
	}
	h.st = st
	h.checkState(true, 0)
	closed := false
	defer func() {
		if !closed {
			st.Close()
		}
	}()
	steps := 3 + rng.Intn(8)
	for i := 0; i < steps; i++ {
		name := pool[rng.Intn(len(pool))]
		switch rng.Intn(8) {
		case 0, 1:
			seq++
			v := fmt.Sprintf("val%d", seq)
			ver := h.svc.put(name, v)
			h.note("service: %q gets new active version v%d %q", name, ver, v)
		case 2:
			h.cache.failNext++
			h.note("cache: the next write fails")
		case 3:
			h.opLookup(name, false)
		case 4:
			h.clock = h.clock.Add(11 * time.Second)
			h.note("clock advances 11s to t=%d", h.clock.Unix())
		case 5:
			h.svc.mu.Lock()
			h.svc.fail[name] = append(h.svc.fail[name], "err")
			h.svc.mu.Unlock()
			h.note("service: the next request for %q fails (err)", name)
		default:
			h.note("tick: the background task polls at t=%d", h.clock.Unix())
			p := h.planRefresh()
			mark := h.svc.beginOp()
			failed := h.cache.failed
			h.must(func() { tk.ch <- time.Now(); <-tk.done })
			var perr error
			if p.hadFail {
				perr = errors.New("(logged)")
			}
			h.settleRefresh(p, perr, mark, failed)
		}
	}
	h.note("Close() [the background task writes the cache once more on shutdown]")
	failed := h.cache.failed
	h.must(func() { st.Close() })
	closed = true
	if !tk.stopped {
		h.bad("Close did not stop the poll ticker")
	}
	h.flushWhen = "after the background task has shut down"
	h.checkState(true, h.cache.failed-failed)
	h.flushWhen = ""
	h.opProbe(dir)
}

type rRecTicker struct{ ch chan time.Time }

func (t rRecTicker) Chan() <-chan time.Time { return t.ch }
func (rRecTicker) Stop()                    {}
func (rRecTicker) Done()                    {}

// runPollLoopDirect calls the polling loop itself with small and large
// intervals: it must not panic, must schedule polls within 10% of the interval,
// and must write the cache and signal completion when its context ends.
func runPollLoopDirect(t *testing.T) {
	for rep := 0; rep < 20; rep++ {
		for _, interval := range []time.Duration{1, 2, 3, 4, 5, 7, 9, 10, 11, 19, 20, 99, 1000, time.Second, time.Hour} {
			h := &rHarness{t: t, clock: time.Unix(1000000, 0).UTC()}
			h.svc = newRService(h.now)
			h.svc.put("a", "val-a")
			h.cache = &rCache{mem: NewMemCache("")}
			var st *Store
			var err error
			h.note("NewStore(Secrets=[\"a\"] PollInterval=-1)")
			h.must(func() {
				st, err = NewStore(context.Background(), StoreConfig{Client: h.svc, Secrets: []string{"a"}, Cache: h.cache, PollInterval: -1, Logf: h.logf, TimeNow: h.now})
			})
			if err != nil {
				h.bad("NewStore failed: %v", err)
			}
			h.st = st
			h.m = map[string]*mEntry{"a": {ver: 1, val: "val-a", lastAccess: h.clock.Unix(), declared: true}}
			h.handles = map[string]Secret{}
			var asked []time.Duration
			st.newTicker = func(d time.Duration) Ticker {
				asked = append(asked, d)
				return rRecTicker{ch: make(chan time.Time)}
			}
			ctx, cancel := context.WithCancel(context.Background())
			cancel()
			done := make(chan struct{})
			h.note("the polling loop is started with interval %dns and a context that has already ended", int64(interval))
			writes := h.cache.writes
			h.must(func() { st.run(ctx, interval, done) })
			select {
			case <-done:
			default:
				h.bad("the polling loop returned without signalling completion")
			}
			if len(asked) != 1 {
				h.bad("the polling loop created %d tickers, want 1", len(asked))
			}
			if d := asked[0]; d <= 0 || d < interval-interval/10 || d > interval+interval/10 {
				h.bad("the polling loop scheduled polls every %dns for a configured interval of %dns (must be positive and within 10%%)", int64(d), int64(interval))
			}
			if h.cache.writes == writes {
				h.bad("the polling loop did not write the cache on shutdown")
			}
			h.checkState(true, 0)
			st.Close()
		}
	}
}

// ---- overlapping calls (best effort: C11 coalescing, C16 cancellation of the winner) ---------

// runOverlap exercises the two situations of the statements that need more than
// one caller at a time. The outcome on correct code does not depend on timing;
// whether a defect is exposed does (the waits are a few milliseconds).
func runOverlap(t *testing.T) {
	wait := func(h *rHarness, ch chan struct{}, what string) {
		select {
		case <-ch:
		case <-time.After(3 * time.Second):
			h.bad("%s did not finish within 3s", what)
		}
	}
	for rep := 0; rep < 4; rep++ {
		// (1) the caller whose request is shared is cancelled; the other caller is alive
		h := &rHarness{t: t, clock: time.Unix(1000000, 0).UTC()}
		h.svc = newRService(h.now)
		h.svc.put("a", "val-a")
		h.svc.put("x", "val-x")
		var st *Store
		var err error
		h.note("NewStore(Secrets=[\"a\"] AllowLookup=true)")
		h.must(func() {
			st, err = NewStore(context.Background(), StoreConfig{Client: h.svc, Secrets: []string{"a"}, AllowLookup: true, PollInterval: -1, Logf: h.logf, TimeNow: h.now})
		})
		if err != nil {
			h.bad("NewStore failed: %v", err)
		}
		h.st = st
		h.m = map[string]*mEntry{}
		inflight, release := make(chan struct{}), make(chan struct{})
		h.svc.hook = func() { close(inflight); <-release }
		ctxA, cancelA := context.WithCancel(context.Background())
		var errA, errB error
		var secB Secret
		doneA, doneB := make(chan struct{}), make(chan struct{})
		h.note("caller A: LookupSecret(\"x\") with a cancellable context; its request is in flight")
		go func() { defer close(doneA); _, errA = st.LookupSecret(ctxA, "x") }()
		wait(h, inflight, "the request of caller A")
		h.note("caller B: LookupSecret(\"x\") with a context that never ends (joins A's request)")
		go func() { defer close(doneB); secB, errB = st.LookupSecret(context.Background(), "x") }()
		time.Sleep(2 * time.Millisecond)
		h.note("caller A's context is cancelled; the service then answers B's own request normally")
		cancelA()
		close(release)
		wait(h, doneA, "caller A")
		wait(h, doneB, "caller B")
		if errA == nil {
			h.bad("caller A's lookup succeeded although its context was cancelled while its request was in flight")
		}
		if errB != nil || secB == nil {
			h.bad("caller B's lookup failed (%v) merely because caller A's context was cancelled; B's context is alive and the service is healthy", errB)
		}
		if got := string(secB.Get()); got != "val-x" {
			h.bad("caller B's handle returns %q, want %q", got, "val-x")
		}
		st.Close()

		// (2) a refresh that gives up must not un-coalesce the poll in flight
		h = &rHarness{t: t, clock: time.Unix(1000000, 0).UTC()}
		h.svc = newRService(h.now)
		h.svc.put("a", "val-a")
		h.note("NewStore(Secrets=[\"a\"])")
		h.must(func() {
			st, err = NewStore(context.Background(), StoreConfig{Client: h.svc, Secrets: []string{"a"}, PollInterval: -1, Logf: h.logf, TimeNow: h.now})
		})
		if err != nil {
			h.bad("NewStore failed: %v", err)
		}
		h.st = st
		h.m = map[string]*mEntry{}
		inflight, release = make(chan struct{}), make(chan struct{})
		h.svc.hook = func() { close(inflight); <-release }
		mark := h.svc.beginOp()
		doneA, doneC := make(chan struct{}), make(chan struct{})
		var errC error
		h.note("caller A: Refresh(); its request for \"a\" is in flight")
		go func() { defer close(doneA); errA = st.Refresh(context.Background()) }()
		wait(h, inflight, "the request of refresh A")
		h.note("caller B: Refresh() with a context that has already ended (joins A's poll and gives up)")
		dead, cancelDead := context.WithCancel(context.Background())
		cancelDead()
		h.must(func() { errB = st.Refresh(dead) })
		if errB == nil {
			h.bad("Refresh with an ended context returned nil while the poll was still in flight")
		}
		h.note("caller C: Refresh() while A's poll is still in flight")
		go func() { defer close(doneC); errC = st.Refresh(context.Background()) }()
		time.Sleep(3 * time.Millisecond)
		if got := h.svc.callsSince(mark); len(got) > 0 {
			close(release)
			h.bad("overlapping refreshes were not coalesced: while A's request was still in flight a second round of requests was sent: %v", stripTimes(got))
		}
		close(release)
		wait(h, doneA, "refresh A")
		wait(h, doneC, "refresh C")
		if errA != nil || errC != nil {
			h.bad("refreshes failed with a healthy service: A=%v C=%v", errA, errC)
		}
		st.Close()
	}
}

// ---- clients (C09) --------------------------------------------------------------------------

// runClients checks the network client against an in-process handler that
// implements the conditional-get protocol or answers with a scripted status,
// and the file-backed client against the file it was given.
func runClients(t *testing.T, rng *rand.Rand, dir string) {
	h := &rHarness{t: t}
	type sv struct {
		ver api.SecretVersion
		val string
	}
	svc := map[string]sv{"a": {3, "val-a"}, "b": {1, ""}, "big": {4000000000, "val-big"}}
	status := 0
	var reqs []string
	var lastReq api.GetRequest
	var hdrProblem string
	handler := http.HandlerFunc(func(w http.ResponseWriter, r *http.Request) {
		var req api.GetRequest
		json.NewDecoder(r.Body).Decode(&req)
		lastReq = req
		reqs = append(reqs, fmt.Sprintf("%s %s {Name:%q Version:%d UpdateIfChanged:%v}", r.Method, r.URL.Path, req.Name, req.Version, req.UpdateIfChanged))
		if r.Header.Get("Content-Type") != "application/json" || r.Header.Get("Sec-X-Tailscale-No-Browsers") != "setec" {
			hdrProblem = fmt.Sprintf("request headers Content-Type=%q Sec-X-Tailscale-No-Browsers=%q", r.Header.Get("Content-Type"), r.Header.Get("Sec-X-Tailscale-No-Browsers"))
		}
		if status != 0 && status != 200 {
			http.Error(w, "scripted status", status)
			return
		}
		s, ok := svc[req.Name]
		switch {
		case !ok:
			http.Error(w, "not found", http.StatusNotFound)
		case req.UpdateIfChanged && req.Version != 0 && req.Version == s.ver:
			w.WriteHeader(http.StatusNotModified)
		case !req.UpdateIfChanged && req.Version != 0 && req.Version != s.ver:
			http.Error(w, "not found", http.StatusNotFound)
		default:
			json.NewEncoder(w).Encode(api.SecretValue{Value: []byte(s.val), Version: s.ver})
		}
	})
	c := Client{Server: "http://replay.invalid/", DoHTTP: func(r *http.Request) (*http.Response, error) {
		rec := httptest.NewRecorder()
		handler.ServeHTTP(rec, r)
		return rec.Result(), nil
	}}
	ctx := context.Background()
	sentinels := map[int]error{404: api.ErrNotFound, 403: api.ErrAccessDenied, 304: api.ErrValueNotChanged}
	isSentinel := func(err error) bool {
		return errors.Is(err, api.ErrNotFound) || errors.Is(err, api.ErrAccessDenied) || errors.Is(err, api.ErrValueNotChanged)
	}
	// do: status mapping
	for _, code := range []int{200, 404, 403, 304, 201, 202, 204, 400, 401, 402, 405, 409, 410, 412, 418, 429, 500, 501, 502, 503, 504} {
		for _, via := range []string{"do", "Get", "GetIfChanged"} {
			status, reqs = code, nil
			h.hist = []string{fmt.Sprintf("the server answers every request with HTTP status %d", code), fmt.Sprintf("%s for secret \"a\" (old version 2 where applicable)", via)}
			var got *api.SecretValue
			var err error
			h.must(func() {
				switch via {
				case "do":
					got, err = do[*api.SecretValue](ctx, c, "/api/get", api.GetRequest{Name: "a"})
				case "Get":
					got, err = c.Get(ctx, "a")
				default:
					got, err = c.GetIfChanged(ctx, "a", 2)
				}
			})
			if len(reqs) != 1 {
				h.bad("%d HTTP requests were sent, want exactly one: %v", len(reqs), reqs)
			}
			if hdrProblem != "" {
				h.bad("%s", hdrProblem)
			}
			switch want := sentinels[code]; {
			case code == 200:
				if err != nil || got == nil || string(got.Value) != "val-a" || got.Version != 3 {
					h.bad("status 200 with a value: got %+v err=%v, want v3 \"val-a\"", got, err)
				}
			case want != nil:
				if err != want {
					h.bad("HTTP status %d must be reported as %q; got %v", code, want, err)
				}
			default:
				if err == nil {
					h.bad("HTTP status %d was reported as success (value %+v)", code, got)
				}
				if isSentinel(err) {
					h.bad("HTTP status %d was reported as the sentinel %q, which is reserved for 404/403/304", code, err)
				}
			}
		}
	}
	// Client.GetIfChanged / Get against the protocol
	status = 0
	for _, name := range []string{"a", "b", "big", "missing"} {
		s, exists := svc[name]
		olds := []api.SecretVersion{0, 1, 2, 3, 4, 4000000000, 4294967295}
		for _, old := range olds {
			reqs = nil
			h.hist = []string{fmt.Sprintf("the server holds %q at active version %d (exists=%v)", name, s.ver, exists), fmt.Sprintf("Client.GetIfChanged(%q, %d)", name, old)}
			var got *api.SecretValue
			var err error
			h.must(func() { got, err = c.GetIfChanged(ctx, name, old) })
			if len(reqs) != 1 {
				h.bad("%d HTTP requests were sent, want exactly one: %v", len(reqs), reqs)
			}
			if lastReq.Name != name || !strings.HasSuffix(reqs[0], "}") || !strings.HasPrefix(reqs[0], "POST /api/get ") {
				h.bad("the request sent was %s", reqs[0])
			}
			if old != 0 && (lastReq.Version != old || !lastReq.UpdateIfChanged) {
				h.bad("a conditional get must carry the caller's version and the UpdateIfChanged flag; sent %s", reqs[0])
			}
			if old == 0 && lastReq.Version != 0 {
				h.bad("with old version 0 the call must behave as Get; sent %s", reqs[0])
			}
			switch {
			case !exists:
				if err != api.ErrNotFound || got != nil {
					h.bad("got %+v err=%v, want ErrNotFound", got, err)
				}
			case old != 0 && old == s.ver:
				if err != api.ErrValueNotChanged || got != nil {
					h.bad("the active version equals the caller's: got %+v err=%v, want ErrValueNotChanged", got, err)
				}
			default:
				if err != nil || got == nil || got.Version != s.ver || string(got.Value) != s.val {
					h.bad("got %+v err=%v, want the active version v%d %q", got, err, s.ver, s.val)
				}
			}
		}
		reqs = nil
		h.hist = []string{fmt.Sprintf("Client.Get(%q)", name)}
		var got *api.SecretValue
		var err error
		h.must(func() { got, err = c.Get(ctx, name) })
		if len(reqs) != 1 || lastReq.Name != name || lastReq.Version != 0 || lastReq.UpdateIfChanged {
			h.bad("Get must send one plain request for the active version; sent %v", reqs)
		}
		if exists && (err != nil || got == nil || got.Version != s.ver || string(got.Value) != s.val) || !exists && err != api.ErrNotFound {
			h.bad("got %+v err=%v", got, err)
		}
	}
	// file-backed client
	file := `{"a":{"secret":{"Value":"dmFsLWE=","Version":3}},"t":{"secret":{"TextValue":"text","Version":5}},"zero":{"secret":{"Value":"eA==","Version":0}},` +
		`"empty":{"secret":{"Value":"","Version":2}},"":{"secret":{"Value":"eA==","Version":1}},"nosecret":{"lastAccess":"5"},"nullsecret":{"secret":null},"c":{"secret":{"Value":"dmFsLWM=","Version":1},"lastAccess":"77"}}`
	want := map[string]sv{"a": {3, "val-a"}, "t": {5, "text"}, "c": {1, "val-c"}}
	p := filepath.Join(dir, "fileclient.json")
	if err := os.WriteFile(p, []byte(file), 0600); err != nil {
		t.Fatalf("write %s: %v", p, err)
	}
	var fc *FileClient
	var err error
	h.hist = []string{fmt.Sprintf("NewFileClient on a file holding %s", file)}
	h.must(func() { fc, err = NewFileClient(p) })
	if err != nil || fc == nil {
		h.bad("NewFileClient failed: %v", err)
	}
	base := h.hist[0]
	for _, name := range []string{"a", "t", "c", "zero", "empty", "", "nosecret", "nullsecret", "missing"} {
		s, exists := want[name]
		for _, old := range []api.SecretVersion{0, 1, 2, 3, 4, 5, 6} {
			h.hist = []string{base, fmt.Sprintf("FileClient.GetIfChanged(%q, %d)", name, old)}
			var got *api.SecretValue
			h.must(func() { got, err = fc.GetIfChanged(ctx, name, old) })
			switch {
			case !exists:
				if err != api.ErrNotFound || got != nil {
					h.bad("got %+v err=%v, want ErrNotFound (the file has no usable value for this name)", got, err)
				}
			case old != 0 && old == s.ver:
				if err != api.ErrValueNotChanged || got != nil {
					h.bad("the held version equals the caller's: got %+v err=%v, want ErrValueNotChanged", got, err)
				}
			default:
				if err != nil || got == nil || got.Version != s.ver || string(got.Value) != s.val {
					h.bad("got %+v err=%v, want v%d %q", got, err, s.ver, s.val)
				}
			}
		}
		h.hist = []string{base, fmt.Sprintf("FileClient.Get(%q)", name)}
		var got *api.SecretValue
		h.must(func() { got, err = fc.Get(ctx, name) })
		if exists && (err != nil || got == nil || got.Version != s.ver || string(got.Value) != s.val) || !exists && (err != api.ErrNotFound || got != nil) {
			h.bad("got %+v err=%v", got, err)
		}
	}
	_ = rng
}

// runBackoffDeep (only with VERIF_REPLAY_DEEP=1; it takes about 13 s of real
// time) checks the C10 clause that the pause between retry rounds of NewStore
// stays at "a few seconds" however long the service is unavailable.
func runBackoffDeep(t *testing.T) {
	h := &rHarness{t: t, clock: time.Unix(1000000, 0).UTC(), limit: 60 * time.Second}
	h.svc = newRService(h.now)
	h.m = map[string]*mEntry{}
	ctx, cancel := context.WithCancel(context.Background())
	defer cancel()
	h.svc.cancelAt, h.svc.cancel = 15, cancel
	h.note("the service does not have \"a\"")
	h.note("NewStore(Secrets=[\"a\"]) with a context that is cancelled during request #15")
	var st *Store
	var err error
	h.must(func() {
		st, err = NewStore(ctx, StoreConfig{Client: h.svc, Secrets: []string{"a"}, PollInterval: -1, Logf: h.logf, TimeNow: h.now})
	})
	if err == nil || st != nil {
		h.bad("NewStore succeeded although the declared secret was never available")
	}
	rt := h.svc.realTimes
	for i := 1; i < len(rt); i++ {
		h.note("pause before request #%d: %v", i+1, rt[i].Sub(rt[i-1]).Round(time.Millisecond))
		if gap := rt[i].Sub(rt[i-1]); gap > 6*time.Second {
			h.bad("NewStore paused %v between retry rounds; the pause must stay at a few seconds (at most about 4s)", gap.Round(time.Millisecond))
		}
	}
	if len(rt) != 15 {
		h.bad("NewStore sent %d requests, want 15 (one per round until its context ended)", len(rt))
	}
}

// scenarioFor maps the name of the function whose contract failed to the
// scenario that exercises it most directly ("" = no preference).
func scenarioFor(focus string) string {
	f := strings.ToLower(focus)
	if i := strings.LastIndex(f, "client/setec"); i >= 0 {
		f = f[i+len("client/setec"):]
	}
	if i := strings.Index(f, "$"); i >= 0 {
		f = f[:i] // closures belong to their enclosing function
	}
	hasPrefix := func(ps ...string) bool {
		for _, p := range ps {
			if strings.HasPrefix(f, p) {
				return true
			}
		}
		return false
	}
	switch {
	case f == "":
		return ""
	case hasPrefix(".client)", ".fileclient)", ".newfileclient") || f == ".do" || hasPrefix(".do["):
		return "clients"
	case hasPrefix(".fieldinfo)", ".fields)", ".parsefields", ".checkunmarshal"):
		return "fields"
	case f == ".store).run" || hasPrefix(".stdticker)", ".filecache)"):
		return "poller"
	case hasPrefix(".newstore", ".store).initializeactive", ".storeconfig)", ".store).isactivesetvalid", ".store).loadcache", ".sleepfor"):
		return "construction"
	case hasPrefix(".store)", ".updater", ".newupdater", ".watcher)", ".secret)", ".memcache)", ".newmemcache", ".cachedsecret)"):
		return "history"
	}
	return ""
}

func TestVerifReplaySetec(t *testing.T) {
	focus := os.Getenv("VERIF_REPLAY_FOCUS")
	dir := t.TempDir()
	defer startWatchdog()()
	w := weightsFor(focus)
	pref := scenarioFor(focus)
	deep := os.Getenv("VERIF_REPLAY_DEEP") == "1"
	scenarios := []struct {
		name string
		runs int
		seed int64
		run  func(rng *rand.Rand)
	}{
		{"history", 12000, 1, func(rng *rand.Rand) { runHistory(t, rng, w, dir) }},
		{"construction", 2000, 2, func(rng *rand.Rand) { runConstruction(t, rng) }},
		{"fields", 2000, 3, func(rng *rand.Rand) { runFields(t, rng) }},
		{"poller", 1000, 4, func(rng *rand.Rand) { runPoller(t, rng, dir) }},
	}
	once := func() {
		runPollLoopDirect(t)
		runOverlap(t)
		runClients(t, rand.New(rand.NewSource(5)), dir)
		parseFieldsRejects(&rHarness{t: t})
	}
	if pref == "clients" || pref == "poller" || pref == "fields" {
		once()
	}
	// the focus scenario runs first and gets three times the iterations
	for pass := 0; pass < 2; pass++ {
		for _, sc := range scenarios {
			if (pass == 0) != (sc.name == pref) {
				continue
			}
			runs := sc.runs
			if sc.name == pref {
				runs *= 3
			}
			if deep {
				runs *= 4
			}
			rng := rand.New(rand.NewSource(sc.seed))
			for r := 0; r < runs; r++ {
				sc.run(rng)
			}
		}
	}
	if !(pref == "clients" || pref == "poller" || pref == "fields") {
		once()
	}
	if deep {
		runBackoffDeep(t)
	}
}
