package audit

// Replay driver for package audit (injected by `go test -overlay`; never written
// to the repository). It runs histories of WriteEntries (and Sync, Close,
// NewFile) over scripted sinks - a plain buffer, a sink that fails after n
// bytes, a sink whose Sync is counted and may fail, a real file opened by
// NewFile - and compares what reached the sink with the statement of C06 (and
// the file flags of C05): on success exactly one complete JSON line per entry,
// naming the entry's principal, action, secret, version and decision, with ID
// and time set, synced when the sink can sync; a sink error is returned; the
// audit file is opened for appending, never truncated, created with mode 0600.
// A disagreement is printed as "REPLAY-COUNTEREXAMPLE" and fails the test.

import (
	"bytes"
	"encoding/json"
	"errors"
	"fmt"
	"io"
	"math/rand"
	"net/netip"
	"os"
	"path/filepath"
	"strings"
	"testing"
	"time"

	"github.com/tailscale/setec/acl"
	"github.com/tailscale/setec/types/api"
)

var errSink = errors.New("injected sink failure")

// sink is the scripted audit sink. The variants with Sync and Close wrap it.
type sink struct {
	buf       bytes.Buffer
	limit     int // fail once more than this many bytes were offered in total; -1: never
	failCall  int // this Write call (1-based) takes half of its bytes and fails; later calls work again; 0: none
	calls     int
	offered   int
	failed    bool // a Write returned an error
	syncs     int
	syncedLen int
	syncErr   bool
	closed    int
	syncAtCls int // number of syncs seen when Close was called
}

func (s *sink) Write(p []byte) (int, error) {
	s.calls++
	if s.calls == s.failCall {
		s.buf.Write(p[:len(p)/2])
		s.offered += len(p)
		s.failed = true
		return len(p) / 2, errSink
	}
	if s.limit >= 0 && s.offered+len(p) > s.limit {
		n := s.limit - s.offered
		if n < 0 {
			n = 0
		}
		s.buf.Write(p[:n])
		s.offered += len(p)
		s.failed = true
		return n, errSink
	}
	s.offered += len(p)
	return s.buf.Write(p)
}

type syncSink struct{ *sink }

func (s syncSink) Sync() error {
	s.syncs++
	if s.syncErr {
		return errSink
	}
	s.syncedLen = s.buf.Len()
	return nil
}

type syncCloseSink struct{ syncSink }

func (s syncCloseSink) Close() error {
	s.closed++
	s.syncAtCls = s.syncs
	return nil
}

type closeSink struct{ *sink }

func (s closeSink) Close() error {
	s.closed++
	return nil
}

type harness struct {
	t    *testing.T
	hist []string
}

func (h *harness) bad(format string, a ...any) {
	h.t.Helper()
	h.t.Fatalf("REPLAY-COUNTEREXAMPLE\nhistory:\n  %s\nproblem: %s", strings.Join(h.hist, "\n  "), fmt.Sprintf(format, a...))
}

func (h *harness) guard(what string, f func()) {
	defer func() {
		if e := recover(); e != nil {
			h.bad("%s panicked: %v", what, e)
		}
	}()
	f()
}

func genEntry(rng *rand.Rand) *Entry {
	e := &Entry{
		ID:         uint64(rng.Intn(3)), // stale values that must be overwritten
		Time:       time.Unix(int64(rng.Intn(2))*1_000_000, 0),
		Action:     []acl.Action{acl.ActionGet, acl.ActionInfo, acl.ActionPut, acl.ActionActivate, acl.ActionDelete}[rng.Intn(5)],
		Authorized: rng.Intn(2) == 0,
		Secret:     []string{"", "alpha", "beta/x", "we\"ird\nname\u2028", "_internal/cfg"}[rng.Intn(5)],
	}
	if rng.Intn(2) == 0 {
		e.SecretVersion = api.SecretVersion(rng.Intn(5))
	}
	e.Principal.Hostname = []string{"node.example.ts.net", "", "h\"ost"}[rng.Intn(3)]
	if rng.Intn(4) != 0 {
		e.Principal.IP = netip.MustParseAddr([]string{"100.64.0.7", "fd7a:115c:a1e0::1", "127.0.0.1"}[rng.Intn(3)])
	}
	if rng.Intn(2) == 0 {
		e.Principal.User = []string{"alice@example.com", "b\\ob"}[rng.Intn(2)]
	} else {
		e.Principal.Tags = [][]string{{"tag:prod"}, {"tag:a", "tag:b"}}[rng.Intn(2)]
	}
	return e
}

func describe(es []*Entry) string {
	var parts []string
	for _, e := range es {
		parts = append(parts, fmt.Sprintf("{principal=%+v action=%s authorized=%v secret=%q version=%d}", e.Principal, e.Action, e.Authorized, e.Secret, e.SecretVersion))
	}
	return "[" + strings.Join(parts, ", ") + "]"
}

// sameEvent: the line names the entry's principal, action, secret, version and decision.
func sameEvent(got Entry, want *Entry) bool {
	return got.Principal.Hostname == want.Principal.Hostname && got.Principal.IP == want.Principal.IP && got.Principal.User == want.Principal.User &&
		fmt.Sprintf("%q", got.Principal.Tags) == fmt.Sprintf("%q", want.Principal.Tags) && got.Action == want.Action && got.Authorized == want.Authorized &&
		got.Secret == want.Secret && got.SecretVersion == want.SecretVersion
}

// checkAppended compares the bytes appended by one successful WriteEntries with its entries.
func (h *harness) checkAppended(appended []byte, es []*Entry, before, after time.Time) {
	if len(es) == 0 {
		if len(appended) != 0 {
			h.bad("WriteEntries() without entries appended %q", appended)
		}
		return
	}
	if len(appended) == 0 || appended[len(appended)-1] != '\n' {
		h.bad("WriteEntries succeeded but the log does not end with a complete line: appended %q", appended)
	}
	lines := strings.Split(strings.TrimSuffix(string(appended), "\n"), "\n")
	if len(lines) != len(es) {
		h.bad("WriteEntries succeeded for %d entries but appended %d lines: %q", len(es), len(lines), appended)
	}
	for i, l := range lines {
		var got Entry
		dec := json.NewDecoder(strings.NewReader(l))
		dec.DisallowUnknownFields()
		if err := dec.Decode(&got); err != nil {
			h.bad("line %d is not one JSON audit record: %q (%v)", i+1, l, err)
		}
		if !sameEvent(got, es[i]) {
			h.bad("line %d, %q, does not name entry %d: %s", i+1, l, i+1, describe(es[i:i+1]))
		}
		if got.ID != es[i].ID || !got.Time.Equal(es[i].Time) {
			h.bad("line %d carries id/time %d/%v, the entry was stamped %d/%v", i+1, got.ID, got.Time, es[i].ID, es[i].Time)
		}
		if es[i].Time.Before(before.Add(-time.Second)) || es[i].Time.After(after.Add(time.Second)) {
			h.bad("entry %d was stamped %v, the call ran between %v and %v: the time was not set", i+1, es[i].Time, before, after)
		}
		if es[i].ID < 3 {
			h.bad("entry %d has ID %d after the call: the ID was not set", i+1, es[i].ID)
		}
		if es[i].Time.Location() != time.UTC {
			h.bad("entry %d was stamped in %v, not UTC", i+1, es[i].Time.Location())
		}
	}
}

// scripted runs one history of WriteEntries calls over a scripted sink.
func (h *harness) scripted(rng *rand.Rand, kind string, focusSync bool) {
	s := &sink{limit: -1}
	switch rng.Intn(4) {
	case 0:
		s.limit = rng.Intn(900)
	case 1:
		s.failCall = 1 + rng.Intn(4)
	}
	var w io.Writer
	canSync, canClose := false, false
	switch kind {
	case "buffer":
		w = s
	case "closer":
		w, canClose = closeSink{s}, true
	case "syncer":
		w, canSync = syncSink{s}, true
	case "sync+closer":
		w, canSync, canClose = syncCloseSink{syncSink{s}}, true, true
	}
	h.hist = []string{fmt.Sprintf("New(<%s sink; fails for good after %d bytes (-1: never); Write call %d is cut short and fails (0: none)>)", kind, s.limit, s.failCall)}
	var l *Writer
	h.guard("New", func() { l = New(w) })
	if l == nil {
		h.bad("New returned nil")
	}
	if s.buf.Len() != 0 || s.offered != 0 {
		h.bad("New wrote to the sink")
	}
	for n := 1 + rng.Intn(5); n > 0; n-- {
		var es []*Entry
		for k := []int{1, 1, 1, 2, 3, 0}[rng.Intn(6)]; k > 0; k-- {
			es = append(es, genEntry(rng))
		}
		s.syncErr = canSync && rng.Intn(6) == 0
		h.hist = append(h.hist, fmt.Sprintf("WriteEntries(%s) [Sync fails: %v]", describe(es), s.syncErr))
		lenBefore, syncsBefore, failedBefore := s.buf.Len(), s.syncs, s.failed
		before := time.Now()
		var err error
		h.guard("WriteEntries", func() { err = l.WriteEntries(es...) })
		after := time.Now()
		appended := s.buf.Bytes()[lenBefore:]
		sinkFailedNow := s.failed && !failedBefore
		switch {
		case err == nil:
			if sinkFailedNow {
				h.bad("the sink failed during this call but WriteEntries returned nil")
			}
			if s.syncErr && len(es) > 0 {
				h.bad("the sink's Sync failed but WriteEntries returned nil")
			}
			if len(es) > 0 && lenBefore > 0 && s.buf.Bytes()[lenBefore-1] != '\n' {
				h.bad("WriteEntries returned nil but its record continues the partial line an earlier failed write left behind, so it is not a complete JSON line of the log: %q", s.buf.String())
			}
			h.checkAppended(appended, es, before, after)
			if canSync && len(es) > 0 {
				if s.syncs == syncsBefore {
					h.bad("WriteEntries returned nil without calling the sink's Sync")
				}
				if s.syncedLen != s.buf.Len() {
					h.bad("WriteEntries returned nil but only %d of %d bytes were synced: Sync was not called after the last write", s.syncedLen, s.buf.Len())
				}
			}
		default:
			if !s.failed && !s.syncErr {
				h.bad("WriteEntries returned %v although the sink accepted everything", err)
			}
			if (sinkFailedNow || s.syncErr && !s.failed) && !errors.Is(err, errSink) {
				h.bad("WriteEntries returned %v, not the sink's error", err)
			}
			// whatever complete lines arrived are records of this call's entries, in order
			lines := strings.Split(string(appended), "\n")
			for i, ln := range lines[:len(lines)-1] {
				var got Entry
				if e := json.Unmarshal([]byte(ln), &got); e != nil || i >= len(es) || !sameEvent(got, es[i]) {
					h.bad("after a failed call the log holds the line %q, which is not the record of entry %d", ln, i+1)
				}
			}
		}
	}
	// Sync and Close
	if rng.Intn(2) == 0 || focusSync {
		s.syncErr = canSync && rng.Intn(3) == 0
		h.hist = append(h.hist, fmt.Sprintf("Sync() [Sync fails: %v]", s.syncErr))
		lenBefore, syncsBefore := s.buf.Len(), s.syncs
		var err error
		h.guard("Sync", func() { err = l.Sync() })
		if s.buf.Len() != lenBefore {
			h.bad("Sync wrote to the log")
		}
		if canSync && s.syncs != syncsBefore+1 {
			h.bad("Sync called the sink's Sync %d times", s.syncs-syncsBefore)
		}
		if (err != nil) != s.syncErr {
			h.bad("Sync returned %v, the sink's Sync failed: %v", err, s.syncErr)
		}
	}
	if rng.Intn(2) == 0 || focusSync {
		s.syncErr = false
		h.hist = append(h.hist, "Close()")
		lenBefore, syncsBefore := s.buf.Len(), s.syncs
		var err error
		h.guard("Close", func() { err = l.Close() })
		if err != nil {
			h.bad("Close returned %v", err)
		}
		if s.buf.Len() != lenBefore {
			h.bad("Close wrote to the log")
		}
		if canClose && s.closed != 1 {
			h.bad("Close closed the sink %d times", s.closed)
		}
		if canSync && s.syncs == syncsBefore {
			h.bad("Close did not sync the sink")
		}
		if canSync && canClose && s.syncAtCls == syncsBefore {
			h.bad("Close closed the sink before syncing it")
		}
	}
}

// file runs one history over a real file opened by NewFile.
func (h *harness) file(rng *rand.Rand, dir string, n int) {
	path := filepath.Join(dir, fmt.Sprintf("audit-%d.log", n))
	h.hist = nil
	var content []byte
	existing := rng.Intn(2) == 0
	mode := os.FileMode(0600)
	if existing {
		content = []byte("{\"id\":1,\"note\":\"records of an earlier run\"}\n")
		mode = []os.FileMode{0600, 0640, 0400 | 0200}[rng.Intn(3)]
		if err := os.WriteFile(path, content, mode); err != nil {
			h.t.Fatal(err)
		}
		os.Chmod(path, mode)
		h.hist = append(h.hist, fmt.Sprintf("audit file exists with %d bytes, mode %v", len(content), mode))
	}
	h.hist = append(h.hist, "NewFile(path)")
	var l *Writer
	var err error
	h.guard("NewFile", func() { l, err = NewFile(path) })
	if err != nil || l == nil {
		h.bad("NewFile failed: %v", err)
	}
	check := func(when string) {
		got, err := os.ReadFile(path)
		if err != nil {
			h.bad("%s: reading the audit file: %v", when, err)
		}
		if !bytes.Equal(got, content) {
			if bytes.HasSuffix(content, got) || len(got) < len(content) {
				h.bad("%s: the audit file lost earlier content: it holds %d bytes, expected %d (%q)", when, len(got), len(content), got)
			}
			h.bad("%s: the audit file holds %q, expected %q", when, got, content)
		}
		fi, _ := os.Stat(path)
		if fi.Mode().Perm() != mode {
			h.bad("%s: the audit file has mode %v, expected %v", when, fi.Mode().Perm(), mode)
		}
	}
	check("after NewFile")
	var other *os.File
	for k := 1 + rng.Intn(4); k > 0; k-- {
		if rng.Intn(3) == 0 {
			// someone else (a second writer, log shipping) appends in between
			if other == nil {
				other, err = os.OpenFile(path, os.O_WRONLY|os.O_APPEND, 0)
				if err != nil {
					h.t.Fatal(err)
				}
				defer other.Close()
			}
			line := []byte("{\"id\":2,\"note\":\"appended through another handle\"}\n")
			other.Write(line)
			content = append(content, line...)
			h.hist = append(h.hist, "another handle appends a line to the file")
		}
		var es []*Entry
		for j := 1 + rng.Intn(2); j > 0; j-- {
			es = append(es, genEntry(rng))
		}
		h.hist = append(h.hist, fmt.Sprintf("WriteEntries(%s)", describe(es)))
		before := time.Now()
		h.guard("WriteEntries", func() { err = l.WriteEntries(es...) })
		after := time.Now()
		if err != nil {
			h.bad("WriteEntries on the file failed: %v", err)
		}
		got, _ := os.ReadFile(path)
		if len(got) < len(content) || !bytes.Equal(got[:len(content)], content) {
			h.bad("WriteEntries did not append: the file held %q and now holds %q", content, got)
		}
		h.checkAppended(got[len(content):], es, before, after)
		content = got
		check("after WriteEntries")
	}
	if f, ok := l.w.(*os.File); ok {
		if n, err := f.ReadAt(make([]byte, 1), 0); n > 0 || err == nil || errors.Is(err, io.EOF) {
			h.bad("the audit file handle is readable: it must be opened write-only")
		}
	}
	h.hist = append(h.hist, "Close()")
	h.guard("Close", func() { err = l.Close() })
	if err != nil {
		h.bad("Close of the file writer failed: %v", err)
	}
	if f, ok := l.w.(*os.File); ok {
		if _, err := f.Write([]byte("x")); err == nil {
			h.bad("the file is still open after Close")
		}
	}
	check("after Close")
	// a path that cannot be opened: an error and no writer
	h.hist = append(h.hist, "NewFile(<path in a missing directory>)")
	h.guard("NewFile", func() { l, err = NewFile(filepath.Join(dir, "missing", "audit.log")) })
	if err == nil || l != nil {
		h.bad("NewFile on an unopenable path returned writer=%v err=%v", l, err)
	}
}

func TestVerifReplayAudit(t *testing.T) {
	focus := strings.ToLower(os.Getenv("VERIF_REPLAY_FOCUS"))
	rng := rand.New(rand.NewSource(replaySeed()))
	h := &harness{t: t}
	nScripted, nFile := 3000, 150
	switch {
	case strings.Contains(focus, "newfile"):
		nScripted, nFile = 1000, 400
	case strings.Contains(focus, "writeentries"):
		nScripted = 5000
	}
	focusSync := strings.Contains(focus, "sync") || strings.Contains(focus, "close")
	kinds := []string{"buffer", "syncer", "syncer", "sync+closer", "closer"}
	for i := 0; i < nScripted; i++ {
		h.scripted(rng, kinds[rng.Intn(len(kinds))], focusSync)
	}
	dir := t.TempDir()
	for i := 0; i < nFile; i++ {
		h.file(rng, dir, i)
	}
}

// replaySeed: the seed is fixed; VERIF_REPLAY_SEED overrides it when exploring by hand.
func replaySeed() int64 {
	var n int64 = 1
	fmt.Sscan(os.Getenv("VERIF_REPLAY_SEED"), &n)
	return n
}
