package db

// Replay driver for package db (injected by `go test -overlay`; never written to
// the repository). When an obligation of a db function fails, this driver
// searches small operation histories, with injected save and audit failures,
// for a concrete input on which the real code disagrees with the sequential
// model taken from the property statements. A disagreement is printed as
// "REPLAY-COUNTEREXAMPLE" and fails the test.

import (
	"bytes"
	"encoding/json"
	"errors"
	"fmt"
	"math/rand"
	"os"
	"path/filepath"
	"sort"
	"strings"
	"testing"

	"github.com/tailscale/setec/acl"
	"github.com/tailscale/setec/audit"
	"github.com/tailscale/setec/types/api"
	"github.com/tink-crypto/tink-go/v2/testutil"
)

type mSecret struct {
	versions map[api.SecretVersion]string
	active   api.SecretVersion
	latest   api.SecretVersion
}

type model map[string]*mSecret

func (m model) clone() model {
	n := model{}
	for k, s := range m {
		c := &mSecret{versions: map[api.SecretVersion]string{}, active: s.active, latest: s.latest}
		for v, b := range s.versions {
			c.versions[v] = b
		}
		n[k] = c
	}
	return n
}

func viewOf(kv *kv) model {
	m := model{}
	for n, s := range kv.secrets {
		c := &mSecret{versions: map[api.SecretVersion]string{}, active: s.ActiveVersion, latest: s.LatestVersion}
		for v, b := range s.Versions {
			c.versions[v] = string(b)
		}
		m[n] = c
	}
	return m
}

func (m model) String() string {
	var names []string
	for n := range m {
		names = append(names, n)
	}
	sort.Strings(names)
	var sb strings.Builder
	for _, n := range names {
		s := m[n]
		var vs []int
		for v := range s.versions {
			vs = append(vs, int(v))
		}
		sort.Ints(vs)
		fmt.Fprintf(&sb, "%q{active=%d latest=%d", n, s.active, s.latest)
		for _, v := range vs {
			fmt.Fprintf(&sb, " %d:%q", v, s.versions[api.SecretVersion(v)])
		}
		sb.WriteString("} ")
	}
	return sb.String()
}

type failWriter struct {
	buf  bytes.Buffer
	fail bool
}

func (w *failWriter) Write(p []byte) (int, error) {
	if w.fail {
		return 0, errors.New("injected audit sink failure")
	}
	return w.buf.Write(p)
}

type op struct {
	kind     string
	name     string
	value    string
	ver      api.SecretVersion
	allowed  bool
	saveFail bool
	audFail  bool
}

func (o op) String() string {
	return fmt.Sprintf("%s(name=%q value=%q ver=%d allowed=%v saveFail=%v auditFail=%v)", o.kind, o.name, o.value, o.ver, o.allowed, o.saveFail, o.audFail)
}

var actionOf = map[string]string{"put": "put", "activate": "activate", "deleteversion": "delete", "delete": "delete", "get": "get", "getversion": "get", "getcond": "get", "info": "info", "list": "info"}

func isMutator(k string) bool {
	return k == "put" || k == "activate" || k == "deleteversion" || k == "delete"
}

type harness struct {
	t    *testing.T
	dir  string
	path string
	db   *DB
	w    *failWriter
	m    model
	hist []string
	// encoding/json's Encoder is sticky: after one failed write every later Encode fails
	auditBroken bool
}

func newHarness(t *testing.T) *harness {
	dir := t.TempDir()
	h := &harness{t: t, dir: dir, path: filepath.Join(dir, "db"), w: &failWriter{}, m: model{}}
	d, err := Open(h.path, &testutil.DummyAEAD{Name: "replay"}, audit.New(h.w))
	if err != nil {
		t.Fatalf("open: %v", err)
	}
	h.db = d
	return h
}

func (h *harness) bad(format string, a ...any) {
	h.t.Fatalf("REPLAY-COUNTEREXAMPLE\nhistory:\n  %s\nproblem: %s\nmodel state: %s\nreal state:  %s", strings.Join(h.hist, "\n  "), fmt.Sprintf(format, a...), h.m, viewOf(h.db.kv))
}

func (h *harness) auditLines() []audit.Entry {
	var out []audit.Entry
	for _, l := range strings.Split(strings.TrimSpace(h.w.buf.String()), "\n") {
		if l == "" {
			continue
		}
		var e audit.Entry
		if err := json.Unmarshal([]byte(l), &e); err != nil {
			h.bad("audit log line is not a complete JSON record: %q", l)
		}
		out = append(out, e)
	}
	return out
}

func (h *harness) step(o op) {
	if h.auditBroken {
		o.audFail = true
	}
	h.hist = append(h.hist, o.String())
	caller := Caller{Principal: audit.Principal{Hostname: "replay", User: "u@example.com"}}
	if o.allowed {
		// a rule listing exactly the required action for exactly this name (for list: info on everything)
		pat := acl.Secret(o.name)
		if o.kind == "list" {
			pat = "*"
		}
		caller.Permissions = acl.Rules{{Action: []acl.Action{acl.Action(actionOf[o.kind])}, Secret: []acl.Secret{pat}}}
	} else {
		// every action except the required one on this name, and the required one on another name
		var others []acl.Action
		for _, a := range []string{"get", "info", "put", "activate", "delete"} {
			if a != actionOf[o.kind] {
				others = append(others, acl.Action(a))
			}
		}
		caller.Permissions = acl.Rules{{Action: others, Secret: []acl.Secret{"*"}}, {Action: []acl.Action{acl.Action(actionOf[o.kind])}, Secret: []acl.Secret{acl.Secret(o.name + "-other")}}}
	}
	before := h.m.clone()
	fileBefore, _ := os.ReadFile(h.path)
	genBefore := h.db.kv.gen
	auditBefore := len(h.auditLines())
	h.w.fail = o.audFail
	realPath := h.db.kv.path
	if o.saveFail {
		h.db.kv.path = filepath.Join(h.dir, "no-such-dir", "db")
	}
	var ver api.SecretVersion
	var sv *api.SecretValue
	var info *api.SecretInfo
	var infos []*api.SecretInfo
	var err error
	switch o.kind {
	case "put":
		ver, err = h.db.Put(caller, o.name, []byte(o.value))
	case "activate":
		err = h.db.Activate(caller, o.name, o.ver)
	case "deleteversion":
		err = h.db.DeleteVersion(caller, o.name, o.ver)
	case "delete":
		err = h.db.Delete(caller, o.name)
	case "get":
		sv, err = h.db.Get(caller, o.name)
	case "getversion":
		sv, err = h.db.GetVersion(caller, o.name, o.ver)
	case "getcond":
		sv, err = h.db.GetConditional(caller, o.name, o.ver)
	case "info":
		info, err = h.db.Info(caller, o.name)
	case "list":
		infos, err = h.db.List(caller)
	}
	h.db.kv.path = realPath
	h.w.fail = false
	fileAfter, _ := os.ReadFile(h.path)
	auditAfter := h.auditLines()
	newAudit := auditAfter[auditBefore:]

	// ---- expected outcome from the statements -------------------------------
	wellFormed := !((o.kind == "put" || o.kind == "activate") && o.name == "")
	reserved := strings.HasPrefix(o.name, "_internal/")
	exp := before.clone()
	expErr := false       // some error
	expDenied := false    // errors.Is(err, ErrAccessDenied)
	expNotFound := false  // errors.Is(err, ErrNotFound)
	expUnchanged := false // api.ErrValueNotChanged
	var expVer api.SecretVersion
	var expVal *string
	var expValVer api.SecretVersion
	effect := false
	switch {
	case !wellFormed:
		expErr = true
	case !o.allowed && o.kind != "list":
		expErr, expDenied = true, true
	case o.audFail && !(o.kind == "getcond" && before[o.name] != nil && before[o.name].active == o.ver):
		if o.kind == "getcond" && before[o.name] == nil {
			expErr, expNotFound = true, true
		} else {
			expErr = true
		}
	default:
		s := before[o.name]
		switch o.kind {
		case "put":
			switch {
			case reserved:
				expErr = true
			case s == nil:
				if o.saveFail {
					expErr = true
				} else {
					exp[o.name] = &mSecret{versions: map[api.SecretVersion]string{1: o.value}, active: 1, latest: 1}
					expVer, effect = 1, true
				}
			default:
				if b, ok := s.versions[s.latest]; ok && b == o.value {
					expVer = s.latest
				} else if o.saveFail {
					expErr = true
				} else {
					e := exp[o.name]
					e.latest++
					e.versions[e.latest] = o.value
					expVer, effect = e.latest, true
				}
			}
		case "activate":
			switch {
			case reserved || o.ver == 0:
				expErr = true
			case s == nil:
				expErr, expNotFound = true, true
			default:
				if _, ok := s.versions[o.ver]; !ok {
					expErr, expNotFound = true, true
				} else if s.active != o.ver {
					if o.saveFail {
						expErr = true
					} else {
						exp[o.name].active = o.ver
						effect = true
					}
				}
			}
		case "deleteversion":
			switch {
			case reserved || o.ver == 0:
				expErr = true
			case s == nil:
				expErr, expNotFound = true, true
			case s.active == o.ver:
				expErr = true
			default:
				if _, ok := s.versions[o.ver]; !ok {
					expErr, expNotFound = true, true
				} else if o.saveFail {
					expErr = true
				} else {
					delete(exp[o.name].versions, o.ver)
					effect = true
				}
			}
		case "delete":
			switch {
			case reserved:
				expErr = true
			case s == nil:
			case o.saveFail:
				expErr = true
			default:
				delete(exp, o.name)
				effect = true
			}
		case "get":
			if s == nil {
				expErr, expNotFound = true, true
			} else {
				v := s.versions[s.active]
				expVal, expValVer = &v, s.active
			}
		case "getversion":
			if s == nil {
				expErr, expNotFound = true, true
			} else if v, ok := s.versions[o.ver]; !ok {
				expErr, expNotFound = true, true
			} else {
				expVal, expValVer = &v, o.ver
			}
		case "getcond":
			if s == nil {
				expErr, expNotFound = true, true
			} else if s.active == o.ver {
				expErr, expUnchanged = true, true
			} else {
				v := s.versions[s.active]
				expVal, expValVer = &v, s.active
			}
		case "info", "list":
			if o.kind == "info" && s == nil {
				expErr, expNotFound = true, true
			}
		}
	}
	h.m = exp
	// ---- compare ------------------------------------------------------------
	if (err != nil) != expErr {
		h.bad("error mismatch: got err=%v, model expects error=%v", err, expErr)
	}
	if expDenied != errors.Is(err, ErrAccessDenied) {
		h.bad("access-denied mismatch: got err=%v, expected denied=%v", err, expDenied)
	}
	if expNotFound && !errors.Is(err, ErrNotFound) {
		h.bad("expected ErrNotFound, got %v", err)
	}
	if expUnchanged != errors.Is(err, api.ErrValueNotChanged) {
		h.bad("ErrValueNotChanged mismatch: got err=%v, expected unchanged=%v", err, expUnchanged)
	}
	if err != nil && (ver != 0 || sv != nil || info != nil || infos != nil) {
		h.bad("a failed call returned a non-zero result: ver=%d sv=%v info=%v", ver, sv, info)
	}
	if o.kind == "put" && err == nil && ver != expVer {
		h.bad("put returned version %d, model expects %d", ver, expVer)
	}
	if expVal != nil {
		if sv == nil || string(sv.Value) != *expVal || sv.Version != expValVer {
			h.bad("value mismatch: got %+v, model expects version %d value %q", sv, expValVer, *expVal)
		}
	}
	if o.kind == "info" && err == nil {
		s := before[o.name]
		var want []api.SecretVersion
		for v := range s.versions {
			want = append(want, v)
		}
		sort.Slice(want, func(i, j int) bool { return want[i] < want[j] })
		if info.Name != o.name || info.ActiveVersion != s.active || fmt.Sprint(info.Versions) != fmt.Sprint(want) {
			h.bad("info mismatch: got %+v, model expects active=%d versions=%v", info, s.active, want)
		}
	}
	if o.kind == "list" && err == nil {
		var want []string
		for n := range before {
			if o.allowed { // info on "*"; otherwise the caller holds info on no existing name
				want = append(want, n)
			}
		}
		sort.Strings(want)
		var got []string
		for _, i := range infos {
			got = append(got, i.Name)
			if i.ActiveVersion != before[i.Name].active {
				h.bad("list reports active version %d for %q, model has %d", i.ActiveVersion, i.Name, before[i.Name].active)
			}
		}
		if fmt.Sprint(got) != fmt.Sprint(want) {
			h.bad("list returned %v, model expects %v", got, want)
		}
	}
	// state equals the model; nothing else changed
	if got := viewOf(h.db.kv).String(); got != h.m.String() {
		h.bad("state differs from the model after the call")
	}
	if !effect {
		if !bytes.Equal(fileBefore, fileAfter) {
			h.bad("database file changed although the call had no effect")
		}
		if h.db.kv.gen != genBefore {
			h.bad("write generation changed (%d -> %d) although nothing was saved", genBefore, h.db.kv.gen)
		}
	} else if h.db.kv.gen != genBefore+1 {
		h.bad("write generation went %d -> %d for one successful save", genBefore, h.db.kv.gen)
	}
	if fi, e := os.Stat(h.path); e == nil && fi.Mode().Perm() != 0600 {
		h.bad("database file mode is %v, want 0600", fi.Mode().Perm())
	}
	// audit: exactly one record for checked operations (none for an unchanged conditional get, none if the sink failed)
	wantRecords := 1
	if !wellFormed || o.audFail || expUnchanged || (o.kind == "getcond" && expNotFound && o.allowed) {
		wantRecords = 0
	}
	if o.audFail && wellFormed && !(o.kind == "getcond" && o.allowed && (expUnchanged || expNotFound)) {
		h.auditBroken = true
	}
	if len(newAudit) != wantRecords {
		h.bad("audit log grew by %d records, expected %d", len(newAudit), wantRecords)
	}
	if wantRecords == 1 {
		e := newAudit[0]
		wantVer := api.SecretVersion(0)
		if o.kind == "activate" || o.kind == "deleteversion" || o.kind == "getversion" {
			wantVer = o.ver
		}
		wantName := o.name
		if o.kind == "list" {
			wantName = ""
		}
		if string(e.Action) != actionOf[o.kind] || e.Secret != wantName || e.SecretVersion != wantVer || e.Authorized != (o.allowed || o.kind == "list") || e.Principal.Hostname != "replay" {
			h.bad("audit record %+v does not describe the request (action %s, secret %q, version %d, authorized %v)", e, actionOf[o.kind], wantName, wantVer, o.allowed)
		}
	}
	// durability: reopening yields exactly the model (C03), and does not modify the file
	kv2, e := openOrCreateKV(h.path, &testutil.DummyAEAD{Name: "replay"})
	if e != nil {
		h.bad("reopening the database failed: %v", e)
	}
	if got := viewOf(kv2).String(); got != h.m.String() {
		h.bad("reopened database holds %s", got)
	}
	if again, _ := os.ReadFile(h.path); !bytes.Equal(again, fileAfter) {
		h.bad("opening the database modified the file")
	}
}

func TestVerifReplayDB(t *testing.T) {
	focus := os.Getenv("VERIF_REPLAY_FOCUS")
	kinds := []string{"put", "activate", "deleteversion", "delete", "get", "getversion", "getcond", "info", "list"}
	names := []string{"a", "b", "", "_internal/x"}
	values := []string{"", "x", "y"}
	rng := rand.New(rand.NewSource(1))
	focusKind := ""
	lf := strings.ToLower(focus)
	for _, m := range [][2]string{{"setactive", "activate"}, {"activate", "activate"}, {"deleteversion", "deleteversion"}, {"deletesecret", "delete"}, {".delete", "delete"},
		{"getconditional", "getcond"}, {"getversion", "getversion"}, {".get", "get"}, {".put", "put"}, {"info", "info"}, {"list", "list"}, {"save", "put"}, {"checkandlog", "get"}} {
		if focusKind == "" && strings.Contains(lf, m[0]) {
			focusKind = m[1]
		}
	}
	gen := func(h *harness, last bool) op {
		o := op{name: names[0], value: values[rng.Intn(len(values))], allowed: rng.Intn(6) != 0}
		if r := rng.Intn(10); r < 4 {
			o.kind = "put"
		} else {
			o.kind = kinds[rng.Intn(len(kinds))]
		}
		if r := rng.Intn(10); r >= 7 {
			o.name = names[r-6]
		}
		// versions: anything from 0 to one past the newest number ever assigned
		top := 1
		if s := h.m[o.name]; s != nil {
			top = int(s.latest) + 1
		}
		o.ver = api.SecretVersion(rng.Intn(top + 1))
		if rng.Intn(6) == 0 {
			o.saveFail = true
		}
		if rng.Intn(10) == 0 {
			o.audFail = true
		}
		if last && focusKind != "" {
			o.kind = focusKind
		}
		return o
	}
	runs := 4000
	if os.Getenv("VERIF_REPLAY_DEEP") != "" {
		runs = 40000 // thorough tier: ten times as many histories (still a bounded search, never counted as proof)
	}
	for r := 0; r < runs; r++ {
		h := newHarness(t)
		n := 2 + rng.Intn(7)
		for i := 0; i < n; i++ {
			h.step(gen(h, r%2 == 0 && i == n-1))
		}
		os.RemoveAll(h.dir)
	}
}
