package server

// Replay driver for package server (injected by `go test -overlay`; never
// written to the repository). When an obligation of a server function fails,
// this driver searches short histories of HTTP requests, backups and restarts
// against a real Server (real db.DB in a temporary directory, audit log in
// memory, scripted WhoIs, in-memory S3 endpoint) for a concrete history on
// which the real code disagrees with the sequential model taken from the
// property statements (C01, C06, C08, C09, C17, C18). A disagreement is printed
// as "REPLAY-COUNTEREXAMPLE" and fails the test.
//
// The timing of periodicBackup (once a minute, change-driven, quiescent) needs
// virtual time. testing/synctest exists in go1.24 only under
// GOEXPERIMENT=synctest, so those scenarios live in the companion file
// zz_verif_replay_timing_test.go (build tag goexperiment.synctest), which
// registers itself through verifTimingScenarios. Without it this driver drives
// doBackup directly and checks of periodicBackup only what real time allows:
// the upload at start-up and termination on cancellation.

import (
	"bytes"
	"context"
	"encoding/base64"
	"encoding/json"
	"errors"
	"fmt"
	"io"
	"log"
	"math/rand"
	"net/http"
	"net/http/httptest"
	"net/netip"
	"os"
	"path/filepath"
	"sort"
	"strings"
	"sync"
	"testing"
	"time"

	"github.com/aws/aws-sdk-go-v2/aws"
	"github.com/aws/aws-sdk-go-v2/credentials"
	"github.com/aws/aws-sdk-go-v2/service/s3"
	"github.com/tailscale/setec/acl"
	"github.com/tailscale/setec/audit"
	"github.com/tailscale/setec/db"
	"github.com/tailscale/setec/types/api"
	"github.com/tink-crypto/tink-go/v2/testutil"
	"tailscale.com/client/tailscale/apitype"
	"tailscale.com/tailcfg"
)

// verifTimingScenarios is set by the synctest companion file when it is built.
var verifTimingScenarios func(t *testing.T, focus string)

// ---- model of the database ---------------------------------------------------

type mSecret struct {
	versions map[api.SecretVersion]string
	active   api.SecretVersion
	latest   api.SecretVersion
}

type model map[string]*mSecret

func (m model) clone() model {
	n := model{}
	for k, s := range m {
		c := &mSecret{versions: map[api.SecretVersion]string{}, active: s.active, latest: s.latest}
		for v, b := range s.versions {
			c.versions[v] = b
		}
		n[k] = c
	}
	return n
}

// String prints what is observable through the database API (the counter of
// assigned version numbers is not).
func (m model) String() string {
	var names []string
	for n := range m {
		names = append(names, n)
	}
	sort.Strings(names)
	var sb strings.Builder
	for _, n := range names {
		s := m[n]
		var vs []int
		for v := range s.versions {
			vs = append(vs, int(v))
		}
		sort.Ints(vs)
		fmt.Fprintf(&sb, "%q{active=%d", n, s.active)
		for _, v := range vs {
			fmt.Fprintf(&sb, " %d:%q", v, s.versions[api.SecretVersion(v)])
		}
		sb.WriteString("} ")
	}
	return sb.String()
}

// globRef and refAllow: the rule semantics of the statements (C07/C01), written
// independently of package acl.
func globRef(pat, name string) bool {
	parts := strings.Split(pat, "*")
	if len(parts) == 1 {
		return pat == name
	}
	if !strings.HasPrefix(name, parts[0]) {
		return false
	}
	name = name[len(parts[0]):]
	last := parts[len(parts)-1]
	for _, mid := range parts[1 : len(parts)-1] {
		i := strings.Index(name, mid)
		if i < 0 {
			return false
		}
		name = name[i+len(mid):]
	}
	return len(name) >= len(last) && strings.HasSuffix(name, last)
}

func refAllow(rr acl.Rules, action, name string) bool {
	for _, r := range rr {
		okA, okS := false, false
		for _, a := range r.Action {
			okA = okA || string(a) == action
		}
		for _, p := range r.Secret {
			okS = okS || globRef(string(p), name)
		}
		if okA && okS {
			return true
		}
	}
	return false
}

var allActions = []acl.Action{acl.ActionGet, acl.ActionInfo, acl.ActionPut, acl.ActionActivate, acl.ActionDelete}

func superRules() acl.Rules {
	return acl.Rules{{Action: append([]acl.Action(nil), allActions...), Secret: []acl.Secret{"*"}}}
}

func superuser() db.Caller {
	return db.Caller{Principal: audit.Principal{User: "replay-observer", Hostname: "observer", IP: netip.MustParseAddr("127.0.0.9")}, Permissions: superRules()}
}

// ---- audit sink --------------------------------------------------------------

type auditSink struct {
	buf       bytes.Buffer
	fail      bool
	syncedLen int
	attempts  int
}

func (w *auditSink) Write(p []byte) (int, error) {
	w.attempts++
	if w.fail {
		return 0, errors.New("injected audit sink failure")
	}
	return w.buf.Write(p)
}

func (w *auditSink) Sync() error {
	w.syncedLen = w.buf.Len()
	return nil
}

// ---- in-memory S3 endpoint ---------------------------------------------------

type s3Req struct {
	method, path string
	body         []byte
	status       int // 0: transport error
	at           time.Time
}

type s3Rec struct {
	mu      sync.Mutex
	reqs    []s3Req
	script  func(n int) (status int, err error) // n: 1-based number of the request
	current *http.Request                       // the request the script is answering
	notify  chan struct{}
}

func (f *s3Rec) Do(req *http.Request) (*http.Response, error) {
	if err := req.Context().Err(); err != nil {
		return nil, err
	}
	var body []byte
	if req.Body != nil {
		b, err := io.ReadAll(req.Body)
		if err != nil {
			return nil, err
		}
		body = b
	}
	if strings.Contains(req.Header.Get("Content-Encoding"), "aws-chunked") {
		return nil, errors.New("replay driver: unexpected aws-chunked upload encoding")
	}
	f.mu.Lock()
	n := len(f.reqs) + 1
	f.reqs = append(f.reqs, s3Req{method: req.Method, path: req.URL.Path, body: body, at: time.Now()})
	f.current = req
	f.mu.Unlock()
	status, err := 200, error(nil)
	if f.script != nil {
		status, err = f.script(n)
	}
	if err == nil {
		err = req.Context().Err()
	}
	f.mu.Lock()
	if err == nil {
		f.reqs[n-1].status = status
	}
	f.mu.Unlock()
	if f.notify != nil {
		select {
		case f.notify <- struct{}{}:
		default:
		}
	}
	if err != nil {
		return nil, err
	}
	return &http.Response{
		Status: fmt.Sprintf("%d %s", status, http.StatusText(status)), StatusCode: status,
		Proto: "HTTP/1.1", ProtoMajor: 1, ProtoMinor: 1,
		Header: http.Header{"Etag": {`"replay"`}}, Body: io.NopCloser(bytes.NewReader(nil)), Request: req,
	}, nil
}

func (f *s3Rec) snapshot() []s3Req {
	f.mu.Lock()
	defer f.mu.Unlock()
	return append([]s3Req(nil), f.reqs...)
}

func newS3Client(f *s3Rec) *s3.Client {
	return s3.New(s3.Options{
		Region:           "us-east-1",
		HTTPClient:       f,
		BaseEndpoint:     aws.String("http://s3.replay.invalid"),
		UsePathStyle:     true,
		Credentials:      credentials.NewStaticCredentialsProvider("AKIDREPLAY", "SECRETREPLAY", ""),
		RetryMaxAttempts: 1,
	})
}

const replayBucket = "replay-bucket"

// ---- requests ----------------------------------------------------------------

type whoSpec struct {
	kind    string // user | tagged | tagged+user | anonymous | whois-error | bad-addr
	place   string // where the grants are: see placeGrants
	rules   acl.Rules
	decoy   acl.Rules
	host    string
	login   string
	tags    []string
	remote  string
	xfwd    string
	xfwdFor string
}

type reqSpec struct {
	ep       string
	method   string
	ctype    *string
	nb       *string
	who      whoSpec
	body     string
	bodyNote string
	bodyOK   bool
	// the decoded request, when bodyOK
	name      string
	ver       api.SecretVersion
	ifChanged bool
	value     string
	audFail   bool
	saveFail  bool
}

func optStr(p *string) string {
	if p == nil {
		return "<absent>"
	}
	return fmt.Sprintf("%q", *p)
}

func (w whoSpec) String() string {
	id := ""
	switch w.kind {
	case "user":
		id = "login=" + w.login
	case "tagged":
		id = fmt.Sprintf("tags=%v", w.tags)
	case "tagged+user":
		id = fmt.Sprintf("tags=%v login=%s", w.tags, w.login)
	case "anonymous":
		id = "no tags, no login"
	case "whois-error":
		return "WhoIs(" + w.remote + ") fails"
	case "bad-addr":
		return fmt.Sprintf("RemoteAddr %q (unparsable), WhoIs would answer a superuser", w.remote)
	}
	cm, _, _ := placeGrants(w)
	var caps []string
	for k, v := range cm {
		var vs []string
		for _, r := range v {
			vs = append(vs, string(r))
		}
		caps = append(caps, fmt.Sprintf("%q: [%s]", k, strings.Join(vs, ", ")))
	}
	sort.Strings(caps)
	return fmt.Sprintf("WhoIs(%s)={host=%s %s CapMap{%s}}", w.remote, w.host, id, strings.Join(caps, "; "))
}

func (q *reqSpec) String() string {
	s := fmt.Sprintf("%s /api/%s Content-Type=%s No-Browsers=%s body(%s)=%q %s", q.method, q.ep, optStr(q.ctype), optStr(q.nb), q.bodyNote, q.body, q.who)
	if q.who.xfwd != "" {
		s += " X-Forwarded-Host=" + q.who.xfwd
	}
	if q.who.xfwdFor != "" {
		s += " X-Forwarded-For=" + q.who.xfwdFor
	}
	if q.audFail {
		s += " [audit sink fails]"
	}
	if q.saveFail {
		s += " [database directory unavailable]"
	}
	return s
}

const malformedGrant = `{"action": 7, "secret": "x"`

func rawRules(rr acl.Rules) []tailcfg.RawMessage {
	out := []tailcfg.RawMessage{}
	for _, r := range rr {
		b, _ := json.Marshal(r)
		out = append(out, tailcfg.RawMessage(b))
	}
	return out
}

// placeGrants builds the capability map of a WhoIs answer. It returns the map,
// whether the statement says the caller is identifiable, and the rules that
// then apply: those under the secrets capability, or, only if that yields
// none, those under its https:// name.
func placeGrants(w whoSpec) (tailcfg.PeerCapMap, bool, acl.Rules) {
	prim, leg := tailcfg.PeerCapability(ACLCap), tailcfg.PeerCapability("https://tailscale.com/cap/secrets")
	bad := []tailcfg.RawMessage{tailcfg.RawMessage(malformedGrant)}
	switch w.place {
	case "primary":
		return tailcfg.PeerCapMap{prim: rawRules(w.rules)}, true, w.rules
	case "legacy":
		return tailcfg.PeerCapMap{leg: rawRules(w.rules)}, true, w.rules
	case "both": // the primary name yields rules, so the other is not consulted
		if len(w.rules) == 0 {
			return tailcfg.PeerCapMap{prim: rawRules(w.rules), leg: rawRules(w.decoy)}, true, w.decoy
		}
		return tailcfg.PeerCapMap{prim: rawRules(w.rules), leg: rawRules(w.decoy)}, true, w.rules
	case "primary-empty+legacy":
		return tailcfg.PeerCapMap{prim: {}, leg: rawRules(w.rules)}, true, w.rules
	case "none":
		return tailcfg.PeerCapMap{"example.com/cap/other": rawRules(w.decoy)}, true, nil
	case "nil-capmap":
		return nil, true, nil
	case "primary-malformed":
		return tailcfg.PeerCapMap{prim: bad}, false, nil
	case "primary-malformed+legacy":
		return tailcfg.PeerCapMap{prim: bad, leg: rawRules(w.decoy)}, false, nil
	case "primary-partly-malformed":
		return tailcfg.PeerCapMap{prim: append(rawRules(w.decoy), bad...)}, false, nil
	case "legacy-malformed":
		return tailcfg.PeerCapMap{leg: bad}, false, nil
	case "primary-empty+legacy-malformed":
		return tailcfg.PeerCapMap{prim: {}, leg: bad}, false, nil
	}
	panic("unknown placement " + w.place)
}

// ---- harness -----------------------------------------------------------------

type harness struct {
	t    *testing.T
	dir  string
	path string
	key  *testutil.DummyAEAD
	sink *auditSink
	db   *db.DB
	srv  *Server
	mux  *http.ServeMux
	s3   *s3Rec
	m    model
	hist []string
	// encoding/json's Encoder is sticky: after one failed write every later Encode fails
	auditBroken bool
	everStored  map[string]bool
	vals        []string // the values this history puts
	whoAnswers  map[string]func() (*apitype.WhoIsResponse, error)
	whoCalls    []string
	files       [][]byte // every content the database file had
	stats       map[string]int
	// the file content last decrypted and found equal to the model, and that model state
	verifiedFile  []byte
	verifiedState string
}

// failure is what bad panics with; the history runner turns it into the report.
type failure struct{ report string }

func (h *harness) bad(format string, a ...any) {
	real := "(not observable)"
	if v, err := h.diskView(); err == nil {
		real = v
	} else {
		real = "(reopening failed: " + err.Error() + ")"
	}
	panic(failure{fmt.Sprintf("REPLAY-COUNTEREXAMPLE\nhistory:\n  %s\nproblem: %s\nmodel state: %s\nreal state:  %s\naudit log:\n%s", strings.Join(h.hist, "\n  "), fmt.Sprintf(format, a...), h.m, real, h.sink.buf.String())})
}

// guard runs f and reports a panic of the code under test as a counterexample.
func (h *harness) guard(what string, f func()) {
	defer func() {
		if e := recover(); e != nil {
			if f, ok := e.(failure); ok {
				panic(f)
			}
			h.bad("%s panicked: %v", what, e)
		}
	}()
	f()
}

func (h *harness) whois(ctx context.Context, addr string) (*apitype.WhoIsResponse, error) {
	h.whoCalls = append(h.whoCalls, addr)
	if f, ok := h.whoAnswers[addr]; ok {
		return f()
	}
	return nil, errors.New("replay: no such peer " + addr)
}

type newOpts struct {
	viaPath      bool // let New open the database itself
	decoyPath    bool // give DB and, in addition, a DBPath/Key/AuditLog that must be ignored
	regionNoBkt  bool // BackupBucketRegion without BackupBucket
	expectExists bool
}

// start builds the server through New, so that every request goes through the
// routes New registered.
func (h *harness) start(o newOpts) {
	h.mux = http.NewServeMux()
	cfg := Config{WhoIs: h.whois, Mux: h.mux}
	desc := "New(Config{DB: <db>"
	fileBefore, _ := os.ReadFile(h.path)
	decoy := filepath.Join(h.dir, "decoy", "db")
	if o.viaPath {
		cfg.DBPath, cfg.Key, cfg.AuditLog = h.path, h.key, audit.New(h.sink)
		desc = "New(Config{DBPath, Key, AuditLog"
	} else {
		if h.db == nil {
			d, err := db.Open(h.path, h.key, audit.New(h.sink))
			if err != nil {
				h.t.Fatalf("open: %v", err)
			}
			h.db = d
			fileBefore, _ = os.ReadFile(h.path)
		}
		cfg.DB = h.db
		if o.decoyPath {
			os.MkdirAll(filepath.Dir(decoy), 0700)
			cfg.DBPath, cfg.Key, cfg.AuditLog = decoy, &testutil.DummyAEAD{Name: "decoy"}, audit.New(io.Discard)
			desc += ", DBPath: <another path>, Key, AuditLog"
		}
	}
	if o.regionNoBkt {
		cfg.BackupBucketRegion = "us-east-1"
		desc += ", BackupBucketRegion: \"us-east-1\""
	}
	desc += "})"
	h.hist = append(h.hist, desc)
	var s *Server
	var err error
	h.guard("New", func() { s, err = New(context.Background(), cfg) })
	if err != nil || s == nil {
		h.bad("New failed on a valid configuration: server=%v err=%v", s, err)
	}
	if cfg.DB != nil && s.db != cfg.DB {
		h.bad("New did not use the database it was given")
	}
	if _, e := os.Stat(decoy); e == nil {
		h.bad("New opened the database at DBPath although a DB was given")
	}
	if s.backupClient != nil || s.backupBucket != "" {
		h.bad("New configured backups (client=%v bucket=%q) although no backup bucket is configured", s.backupClient != nil, s.backupBucket)
	}
	if fileAfter, _ := os.ReadFile(h.path); o.expectExists && !bytes.Equal(fileBefore, fileAfter) {
		h.bad("New modified an existing database file")
	}
	h.srv, h.db = s, s.db
	h.auditBroken = false
	if o.viaPath {
		h.checkState("after New reopened the database")
	}
	// backups are driven by the harness through an in-memory endpoint
	h.s3 = &s3Rec{}
	h.srv.backupClient, h.srv.backupBucket = newS3Client(h.s3), replayBucket
	if b, err := os.ReadFile(h.path); err == nil {
		h.files = append(h.files, b)
	}
}

// scratchDir returns a directory for database files: on a memory-backed
// filesystem where there is one, because every save of the database is an
// fsync and thousands of them dominate the run time on a busy disk.
func scratchDir(t *testing.T) string {
	if fi, err := os.Stat("/dev/shm"); err == nil && fi.IsDir() {
		if d, err := os.MkdirTemp("/dev/shm", "verif-replay-"); err == nil {
			t.Cleanup(func() { os.RemoveAll(d) })
			return d
		}
	}
	return t.TempDir()
}

var scratchBase string
var scratchN int

func newHarness(t *testing.T, o newOpts) *harness {
	scratchN++
	dir := filepath.Join(scratchBase, fmt.Sprint(scratchN))
	os.MkdirAll(filepath.Join(dir, "state"), 0700)
	h := &harness{stats: map[string]int{}, t: t, dir: dir, path: filepath.Join(dir, "state", "db"), key: &testutil.DummyAEAD{Name: "replay"}, sink: &auditSink{}, m: model{}, everStored: map[string]bool{}}
	return h
}

// viewOf reads the whole database through the API as a superuser.
func viewOf(d *db.DB) (string, error) {
	su := superuser()
	infos, err := d.List(su)
	if err != nil {
		return "", err
	}
	m := model{}
	for _, i := range infos {
		s := &mSecret{versions: map[api.SecretVersion]string{}, active: i.ActiveVersion}
		for _, v := range i.Versions {
			sv, err := d.GetVersion(su, i.Name, v)
			if err != nil {
				return "", err
			}
			s.versions[v] = string(sv.Value)
		}
		m[i.Name] = s
	}
	return m.String(), nil
}

func (h *harness) diskView() (string, error) {
	d, err := db.Open(h.path, h.key, audit.New(io.Discard))
	if err != nil {
		return "", err
	}
	return viewOf(d)
}

func (h *harness) liveView() (string, error) {
	n, synced := h.sink.buf.Len(), h.sink.syncedLen
	v, err := viewOf(h.db)
	h.sink.buf.Truncate(n)
	h.sink.syncedLen = synced
	return v, err
}

func (h *harness) checkState(when string) {
	if !h.auditBroken {
		got, err := h.liveView()
		if err != nil {
			h.bad("%s: reading the live database failed: %v", when, err)
		}
		if got != h.m.String() {
			h.bad("%s: the live database holds %s", when, got)
		}
	}
	// the file is decrypted again only if its bytes changed since it was last found to hold the model state
	cur, _ := os.ReadFile(h.path)
	if want := h.m.String(); h.verifiedFile == nil || !bytes.Equal(cur, h.verifiedFile) || want != h.verifiedState {
		got, err := h.diskView()
		if err != nil {
			h.bad("%s: reopening the database file failed: %v", when, err)
		}
		if got != want {
			h.bad("%s: the database file holds %s", when, got)
		}
		h.verifiedFile, h.verifiedState = cur, want
	}
}

func parseAudit(b []byte) ([]audit.Entry, error) {
	var out []audit.Entry
	if len(b) > 0 && b[len(b)-1] != '\n' {
		return nil, fmt.Errorf("audit log does not end with a complete line: %q", b)
	}
	for _, l := range strings.Split(strings.TrimSuffix(string(b), "\n"), "\n") {
		if l == "" {
			continue
		}
		var e audit.Entry
		if err := json.Unmarshal([]byte(l), &e); err != nil {
			return nil, fmt.Errorf("audit log line is not a complete JSON record: %q", l)
		}
		out = append(out, e)
	}
	return out, nil
}

// leaks reports which secret material occurs in body.
func (h *harness) leaks(body string, extra ...string) string {
	check := func(v string) bool {
		if len(v) < 6 {
			return false
		}
		return strings.Contains(body, v) || strings.Contains(body, base64.StdEncoding.EncodeToString([]byte(v))) || strings.Contains(body, strings.TrimRight(base64.StdEncoding.EncodeToString([]byte(v)), "="))
	}
	for v := range h.everStored {
		if check(v) {
			return fmt.Sprintf("the stored value %q", v)
		}
	}
	for _, v := range extra {
		if check(v) {
			return fmt.Sprintf("the submitted value %q", v)
		}
	}
	return ""
}

var requiredAction = map[string]string{"list": "info", "get": "get", "info": "info", "put": "put", "activate": "activate", "delete": "delete", "delete-version": "delete"}

func (h *harness) step(spec *reqSpec) {
	cp := *spec
	q := &cp
	h.hist = append(h.hist, q.String())
	before := h.m.clone()
	fileBefore, _ := os.ReadFile(h.path)
	genBefore := h.db.WriteGen()
	auditBefore, attemptsBefore := h.sink.buf.Len(), h.sink.attempts
	s3Before := len(h.s3.snapshot())
	if h.auditBroken {
		q.audFail = true // the sticky encoder keeps failing
	}

	// the tailnet's answers
	capMap, identifiable, perms := tailcfg.PeerCapMap(nil), false, acl.Rules(nil)
	h.whoAnswers = map[string]func() (*apitype.WhoIsResponse, error){}
	h.whoCalls = nil
	super := func() (*apitype.WhoIsResponse, error) {
		return &apitype.WhoIsResponse{Node: &tailcfg.Node{Name: "decoy.example.ts.net"}, UserProfile: &tailcfg.UserProfile{LoginName: "decoy@example.com"}, CapMap: tailcfg.PeerCapMap{tailcfg.PeerCapability(ACLCap): rawRules(superRules())}}, nil
	}
	h.whoAnswers["100.99.99.99:9"] = super
	h.whoAnswers["100.99.99.99"] = super
	w := q.who
	switch w.kind {
	case "whois-error":
		h.whoAnswers[w.remote] = func() (*apitype.WhoIsResponse, error) { return nil, errors.New("injected WhoIs failure") }
	case "bad-addr":
		h.whoAnswers[w.remote] = super
	default:
		capMap, identifiable, perms = placeGrants(w)
		node := &tailcfg.Node{Name: w.host}
		prof := &tailcfg.UserProfile{}
		if strings.Contains(w.kind, "tagged") {
			node.Tags = w.tags
		}
		if strings.Contains(w.kind, "user") {
			prof.LoginName = w.login
		}
		if w.kind == "anonymous" {
			identifiable = false
		}
		h.whoAnswers[w.remote] = func() (*apitype.WhoIsResponse, error) {
			return &apitype.WhoIsResponse{Node: node, UserProfile: prof, CapMap: capMap}, nil
		}
	}

	// the request
	req := httptest.NewRequest(q.method, "/api/"+q.ep, strings.NewReader(q.body))
	req.RemoteAddr = w.remote
	if q.ctype != nil {
		req.Header.Set("Content-Type", *q.ctype)
	}
	if q.nb != nil {
		req.Header.Set("Sec-X-Tailscale-No-Browsers", *q.nb)
	}
	if w.xfwd != "" {
		req.Header.Set("X-Forwarded-Host", w.xfwd)
	}
	if w.xfwdFor != "" {
		req.Header.Set("X-Forwarded-For", w.xfwdFor)
	}
	rec := httptest.NewRecorder()
	h.sink.fail = q.audFail
	stateDir := filepath.Dir(h.path)
	if q.saveFail {
		if err := os.Rename(stateDir, stateDir+".away"); err != nil {
			h.t.Fatalf("rename: %v", err)
		}
	}
	h.guard("the handler of /api/"+q.ep, func() { h.mux.ServeHTTP(rec, req) })
	if q.saveFail {
		if err := os.Rename(stateDir+".away", stateDir); err != nil {
			h.t.Fatalf("rename back: %v", err)
		}
	}
	h.sink.fail = false
	status, body := rec.Code, rec.Body.String()
	fileAfter, _ := os.ReadFile(h.path)
	newAudit, perr := parseAudit(h.sink.buf.Bytes()[auditBefore:])
	if perr != nil {
		h.bad("%v", perr)
	}
	if len(h.s3.snapshot()) != s3Before {
		h.bad("an API request caused an upload to the backup bucket")
	}

	// ---- what the statements require ----------------------------------------
	gateOK := q.method == "POST" && q.ctype != nil && *q.ctype == "application/json" && q.nb != nil && *q.nb == "setec"
	accepted := gateOK && identifiable && q.bodyOK
	if !accepted {
		why := "is not a POST with Content-Type application/json and Sec-X-Tailscale-No-Browsers: setec"
		if gateOK && !identifiable {
			why = "comes from a caller the tailnet cannot identify"
		} else if gateOK {
			why = "has a body that is not a JSON request"
		}
		h.stats["rejected"]++
		if status < 400 || status > 599 {
			h.bad("the request %s but was answered with status %d, body %q", why, status, body)
		}
		if len(newAudit) != 0 {
			h.bad("the request %s but reached the store: audit record %+v", why, newAudit[0])
		}
		if h.sink.attempts != attemptsBefore {
			h.auditBroken = true
			h.bad("the request %s but reached the store: it tried to write an audit record", why)
		}
		if !bytes.Equal(fileBefore, fileAfter) || h.db.WriteGen() != genBefore {
			h.bad("the request %s but changed the database", why)
		}
		if l := h.leaks(body, q.value); l != "" {
			h.bad("the reply to a rejected request contains %s: %q", l, body)
		}
		h.checkState("after a rejected request")
		return
	}

	kind := q.ep
	if q.ep == "get" {
		if q.ver != 0 && q.ifChanged {
			kind = "getcond"
		} else if q.ver != 0 {
			kind = "getversion"
		}
	}
	allowed := refAllow(perms, requiredAction[q.ep], q.name)
	wellFormed := !((kind == "put" || kind == "activate") && q.name == "")
	reserved := strings.HasPrefix(q.name, "_internal/")
	exp := before.clone()
	outcome := "ok" // ok | denied | notfound | unchanged | other
	var expVer api.SecretVersion
	var expVal *string
	var expValVer api.SecretVersion
	effect := false
	wantRecord := true
	s := before[q.name]
	switch {
	case !wellFormed:
		outcome, wantRecord = "other", false
	case !allowed && kind != "list":
		outcome = "denied"
	case kind == "getcond" && s == nil:
		outcome, wantRecord = "notfound", false
	case kind == "getcond" && s.active == q.ver:
		outcome, wantRecord = "unchanged", false
	case q.audFail:
		outcome = "other"
	default:
		switch kind {
		case "put":
			switch {
			case reserved:
				outcome = "other"
			case s == nil:
				if q.saveFail {
					outcome = "other"
				} else {
					exp[q.name] = &mSecret{versions: map[api.SecretVersion]string{1: q.value}, active: 1, latest: 1}
					expVer, effect = 1, true
				}
			default:
				if b, ok := s.versions[s.latest]; ok && b == q.value {
					expVer = s.latest
				} else if q.saveFail {
					outcome = "other"
				} else {
					e := exp[q.name]
					e.latest++
					e.versions[e.latest] = q.value
					expVer, effect = e.latest, true
				}
			}
		case "activate":
			switch {
			case reserved || q.ver == 0:
				outcome = "other"
			case s == nil:
				outcome = "notfound"
			default:
				if _, ok := s.versions[q.ver]; !ok {
					outcome = "notfound"
				} else if s.active != q.ver {
					if q.saveFail {
						outcome = "other"
					} else {
						exp[q.name].active = q.ver
						effect = true
					}
				}
			}
		case "delete-version":
			switch {
			case reserved || q.ver == 0:
				outcome = "other"
			case s == nil:
				outcome = "notfound"
			case s.active == q.ver:
				outcome = "other"
			default:
				if _, ok := s.versions[q.ver]; !ok {
					outcome = "notfound"
				} else if q.saveFail {
					outcome = "other"
				} else {
					delete(exp[q.name].versions, q.ver)
					effect = true
				}
			}
		case "delete":
			switch {
			case reserved:
				outcome = "other"
			case s == nil: // deleting an absent secret succeeds
			case q.saveFail:
				outcome = "other"
			default:
				delete(exp, q.name)
				effect = true
			}
		case "get", "getcond":
			if s == nil {
				outcome = "notfound"
			} else {
				v := s.versions[s.active]
				expVal, expValVer = &v, s.active
			}
		case "getversion":
			if s == nil {
				outcome = "notfound"
			} else if v, ok := s.versions[q.ver]; !ok {
				outcome = "notfound"
			} else {
				expVal, expValVer = &v, q.ver
			}
		case "info":
			if s == nil {
				outcome = "notfound"
			}
		}
	}
	h.stats[kind+"/"+outcome]++
	h.m = exp
	if effect && kind == "put" {
		h.everStored[q.value] = true
	}

	// ---- compare --------------------------------------------------------------
	describe := map[string]string{"ok": "200 with the JSON result", "denied": "403 (the caller's rules do not grant " + requiredAction[q.ep] + " on " + fmt.Sprintf("%q", q.name) + ")",
		"notfound": "404 (no such secret or version)", "unchanged": "304 with an empty body (the active version is the caller's)", "other": "a 4xx/5xx other than 403/404 (the operation fails for another reason)"}[outcome]
	okStatus := map[string]bool{"ok": status == 200, "denied": status == 403, "notfound": status == 404, "unchanged": status == 304, "other": status >= 400 && status <= 599 && status != 403 && status != 404}[outcome]
	if !okStatus {
		h.bad("status %d (body %q); the statement requires %s", status, body, describe)
	}
	if outcome == "unchanged" && body != "" {
		h.bad("the 304 reply has a body: %q", body)
	}
	if status != 200 {
		if l := h.leaks(body, q.value); l != "" {
			h.bad("the non-200 reply (status %d) contains %s: %q", status, l, body)
		}
		// a failed request is answered with a fixed message, not with material from the request or the store
		if len(q.name) >= 4 && strings.Contains(body, q.name) {
			h.bad("the non-200 reply (status %d) echoes request data (the secret name): %q", status, body)
		}
		if strings.Contains(body, h.dir) {
			h.bad("the non-200 reply (status %d) discloses server-side state (the database path): %q", status, body)
		}
	} else {
		var jerr error
		switch kind {
		case "get", "getcond", "getversion":
			var sv api.SecretValue
			jerr = json.Unmarshal([]byte(body), &sv)
			if jerr == nil && (string(sv.Value) != *expVal || sv.Version != expValVer) {
				h.bad("served version %d value %q; the statement requires version %d value %q", sv.Version, sv.Value, expValVer, *expVal)
			}
		case "put":
			var v api.SecretVersion
			jerr = json.Unmarshal([]byte(body), &v)
			if jerr == nil && v != expVer {
				h.bad("put answered version %d, model expects %d", v, expVer)
			}
		case "info":
			var info api.SecretInfo
			jerr = json.Unmarshal([]byte(body), &info)
			if jerr == nil {
				var want []api.SecretVersion
				for v := range s.versions {
					want = append(want, v)
				}
				sort.Slice(want, func(i, j int) bool { return want[i] < want[j] })
				if info.Name != q.name || info.ActiveVersion != s.active || fmt.Sprint(info.Versions) != fmt.Sprint(want) {
					h.bad("info answered %+v, model expects active=%d versions=%v", info, s.active, want)
				}
			}
		case "list":
			var infos []*api.SecretInfo
			jerr = json.Unmarshal([]byte(body), &infos)
			if jerr == nil {
				var want, got []string
				for n := range before {
					if refAllow(perms, "info", n) {
						want = append(want, n)
					}
				}
				sort.Strings(want)
				for _, i := range infos {
					got = append(got, i.Name)
					if b := before[i.Name]; b != nil && (i.ActiveVersion != b.active || len(i.Versions) != len(b.versions)) {
						h.bad("list reports %+v for %q, model has active=%d and %d versions", i, i.Name, b.active, len(b.versions))
					}
				}
				if fmt.Sprint(got) != fmt.Sprint(want) {
					h.bad("list returned %v, the caller holds info on exactly %v", got, want)
				}
			}
		default:
			var v struct{}
			jerr = json.Unmarshal([]byte(body), &v)
		}
		if jerr != nil {
			h.bad("the 200 reply is not the JSON result: %q (%v)", body, jerr)
		}
		if expVal == nil {
			if l := h.leaks(body); l != "" {
				h.bad("the reply to %s contains %s: %q", q.ep, l, body)
			}
		}
	}
	// audit: exactly one record before any value is served or any change made
	wantRecords := 0
	if wantRecord && !q.audFail {
		wantRecords = 1
	}
	if wantRecord && q.audFail {
		h.auditBroken = true
	}
	if len(newAudit) != wantRecords {
		h.bad("the audit log grew by %d records, expected %d", len(newAudit), wantRecords)
	}
	if wantRecords == 1 {
		e := newAudit[0]
		wantVer := api.SecretVersion(0)
		if kind == "activate" || kind == "delete-version" || kind == "getversion" {
			wantVer = q.ver
		}
		wantName := q.name
		if kind == "list" {
			wantName = ""
		}
		if string(e.Action) != requiredAction[q.ep] || e.Secret != wantName || e.SecretVersion != wantVer || e.Authorized != (allowed || kind == "list") {
			h.bad("audit record %+v does not describe the request (action %s, secret %q, version %d, authorized %v)", e, requiredAction[q.ep], wantName, wantVer, allowed || kind == "list")
		}
		wantP := audit.Principal{Hostname: w.host, IP: netip.MustParseAddrPort(w.remote).Addr()}
		if strings.Contains(w.kind, "tagged") {
			wantP.Tags = w.tags
		} else {
			wantP.User = w.login
		}
		if e.Principal.Hostname != wantP.Hostname || e.Principal.IP != wantP.IP || e.Principal.User != wantP.User || fmt.Sprint(e.Principal.Tags) != fmt.Sprint(wantP.Tags) {
			h.bad("the audit record's principal is %+v; the tailnet identified the caller at %s as %+v", e.Principal, w.remote, wantP)
		}
		if e.ID == 0 && e.Time.IsZero() {
			h.bad("audit record without ID and time: %+v", e)
		}
		if h.sink.syncedLen != h.sink.buf.Len() {
			h.bad("the audit record was not synced before the reply (synced %d of %d bytes)", h.sink.syncedLen, h.sink.buf.Len())
		}
	}
	for _, a := range h.whoCalls {
		if a != w.remote {
			h.bad("the caller must be looked up by the request's source address %q; WhoIs calls: %q", w.remote, h.whoCalls)
		}
	}
	if !effect {
		if !bytes.Equal(fileBefore, fileAfter) {
			h.bad("the database file changed although the request had no effect")
		}
		if h.db.WriteGen() != genBefore {
			h.bad("the write generation changed (%d -> %d) although nothing was saved", genBefore, h.db.WriteGen())
		}
	} else {
		if h.db.WriteGen() == genBefore {
			h.bad("the write generation did not change for a saved mutation")
		}
		h.files = append(h.files, fileAfter)
	}
	h.checkState("after the request")
}

// ---- backups -----------------------------------------------------------------

// backup runs doBackup once against the in-memory endpoint with a scripted
// outcome and compares with C17: an upload is a byte-exact copy of the file;
// a failed upload stores nothing and is reported.
func (h *harness) backup(mode string, nested *reqSpec) {
	h.hist = append(h.hist, "doBackup ["+mode+"]")
	fileBefore, _ := os.ReadFile(h.path)
	auditBefore := h.sink.buf.Len()
	genBefore := h.db.WriteGen()
	before := len(h.s3.snapshot())
	ctx, cancel := context.WithCancel(context.Background())
	defer cancel()
	stateDir := filepath.Dir(h.path)
	h.s3.script = func(n int) (int, error) {
		switch mode {
		case "http-500":
			return 500, nil
		case "http-403":
			return 403, nil
		case "transport-error":
			return 0, errors.New("injected transport failure")
		case "cancelled-during-upload":
			cancel()
			return 0, context.Canceled
		case "write-during-upload":
			h.step(nested)
		}
		return 200, nil
	}
	switch mode {
	case "context-already-cancelled":
		cancel()
	case "file-missing":
		os.Rename(stateDir, stateDir+".away")
	}
	var err error
	h.guard("doBackup", func() { err = h.srv.doBackup(ctx) })
	if mode == "file-missing" {
		os.Rename(stateDir+".away", stateDir)
	}
	h.s3.script = nil
	fileAfter, _ := os.ReadFile(h.path)
	reqs := h.s3.snapshot()[before:]
	var stored []s3Req
	for _, r := range reqs {
		if r.status == 200 {
			stored = append(stored, r)
		}
	}
	wantOK := mode == "ok" || mode == "write-during-upload"
	if wantOK && err != nil {
		h.bad("doBackup failed although the bucket accepted the upload: %v", err)
	}
	if !wantOK && err == nil {
		h.bad("the upload failed (%s: %d objects stored) but doBackup reported success", mode, len(stored))
	}
	if err == nil && len(stored) != 1 {
		h.bad("doBackup reported success but %d objects were stored", len(stored))
	}
	if err != nil && len(stored) != 0 {
		h.bad("doBackup reported %v but an object was stored", err)
	}
	for _, r := range reqs {
		if r.method != "PUT" || !strings.HasPrefix(r.path, "/"+replayBucket+"/") || len(r.path) <= len(replayBucket)+2 {
			h.bad("backup request %s %s is not an object upload to the configured bucket %q", r.method, r.path, replayBucket)
		}
		if !bytes.Equal(r.body, fileBefore) && !(mode == "write-during-upload" && bytes.Equal(r.body, fileAfter)) {
			h.bad("the uploaded object (%d bytes) is not a byte-exact copy of the database file (%d bytes)", len(r.body), len(fileBefore))
		}
	}
	for _, r := range stored {
		d := filepath.Join(h.dir, "restore")
		os.WriteFile(d, r.body, 0600)
		if _, err := db.Open(d, h.key, audit.New(io.Discard)); err != nil {
			h.bad("the uploaded object does not open with the server's key: %v", err)
		}
		os.Remove(d)
	}
	if mode != "write-during-upload" {
		if !bytes.Equal(fileBefore, fileAfter) || h.db.WriteGen() != genBefore || h.sink.buf.Len() != auditBefore {
			h.bad("doBackup changed the database or wrote an audit record")
		}
	}
}

// periodic runs periodicBackup in real time: only the upload at start-up and
// the termination on cancellation can be observed this way.
func (h *harness) periodic(mode string) {
	h.hist = append(h.hist, "periodicBackup ["+mode+"], then cancel the context")
	file, _ := os.ReadFile(h.path)
	before := len(h.s3.snapshot())
	h.s3.notify = make(chan struct{}, 8)
	h.s3.script = func(n int) (int, error) {
		if mode == "first-upload-fails" {
			return 500, nil
		}
		return 200, nil
	}
	ctx, cancel := context.WithCancel(context.Background())
	if mode == "context-already-cancelled" {
		cancel()
	}
	done := make(chan any, 1)
	go func() {
		defer func() { done <- recover() }()
		h.srv.periodicBackup(ctx)
	}()
	if mode != "context-already-cancelled" {
		select {
		case <-h.s3.notify:
		case p := <-done:
			cancel()
			h.bad("periodicBackup returned (%v) before the context was cancelled and before any upload", p)
		case <-time.After(10 * time.Second):
			cancel()
			h.bad("periodicBackup made no upload at start-up")
		}
	}
	cancel()
	select {
	case p := <-done:
		if p != nil {
			h.bad("periodicBackup panicked: %v", p)
		}
	case <-time.After(10 * time.Second):
		h.bad("periodicBackup did not stop after its context was cancelled")
	}
	h.s3.script, h.s3.notify = nil, nil
	reqs := h.s3.snapshot()[before:]
	stored := 0
	for _, r := range reqs {
		if r.status == 200 {
			stored++
		}
		if !bytes.Equal(r.body, file) {
			h.bad("the uploaded object (%d bytes) is not a byte-exact copy of the database file (%d bytes)", len(r.body), len(file))
		}
	}
	if len(reqs) > 1 {
		h.bad("periodicBackup made %d uploads within one minute", len(reqs))
	}
	if mode == "ok" && stored != 1 {
		h.bad("periodicBackup stored %d objects at start-up, expected 1", stored)
	}
}

// restart reopens the database through New(Config{DBPath...}), as after a server restart.
func (h *harness) restart() {
	h.db = nil
	h.start(newOpts{viaPath: true, expectExists: true})
}

// ---- generation --------------------------------------------------------------

type bias struct {
	ep         string  // endpoint preferred for the last request of a history
	cond       bool    // prefer conditional gets
	pGate      float64 // probability of a gate violation
	pWho       float64 // probability of an odd WhoIs answer
	pBody      float64 // probability of a malformed body
	pBackup    float64
	pRestart   float64
	pFault     float64
	runs       int
	newVariant bool
	pAllow     float64 // probability that the caller is granted exactly what the request needs
	setup      bool    // requests before the last one mostly build up versions of one secret
}

func biasFor(focus string) bias {
	b := bias{pGate: 0.08, pWho: 0.10, pBody: 0.08, pBackup: 0.05, pRestart: 0.02, pFault: 0.08, runs: 5000, pAllow: 0.65}
	f := strings.ToLower(focus)
	switch {
	case strings.Contains(f, "servejson"):
		b.pGate, b.pBody, b.pWho, b.pFault = 0.2, 0.2, 0.15, 0.15
	case strings.Contains(f, "getidentity"):
		b.pWho = 0.5
	case strings.Contains(f, "periodicbackup"), strings.Contains(f, "dobackup"), strings.Contains(f, "backupkey"):
		b.pBackup = 0.4
	case strings.Contains(f, "server.new"), strings.Contains(f, "makes3client"):
		b.pRestart, b.newVariant = 0.1, true
	case strings.Contains(f, "deleteversion"):
		b.ep = "delete-version"
	case strings.Contains(f, "deletesecret"):
		b.ep = "delete"
	case strings.Contains(f, ".get"):
		b.ep, b.cond, b.setup, b.pAllow = "get", true, true, 0.85
	case strings.Contains(f, ".put"):
		b.ep, b.setup, b.pAllow = "put", true, 0.85
	case strings.Contains(f, ".activate"):
		b.ep = "activate"
	case strings.Contains(f, ".info"):
		b.ep = "info"
	case strings.Contains(f, ".list"):
		b.ep = "list"
	}
	return b
}

var (
	endpoints = []string{"list", "get", "info", "put", "activate", "delete", "delete-version"}
	genNames  = []string{"alpha", "beta/x", "", "_internal/cfg"}
	genValues = []string{"", "S3CR3T-one-0001", " S3CR3T-two-0002\n", "\xff\x00S3CR3T-three\xfe", "S3CR3T-four-\u00a0"}
	patterns  = []string{"*", "al*", "*a", "beta/*", "*/x", "", "alpha", "a*p*a", "_internal/*"}
)

func strp(s string) *string { return &s }

func pick[T any](rng *rand.Rand, xs []T) T { return xs[rng.Intn(len(xs))] }

func genWho(rng *rand.Rand, b bias, action, name string, i int) whoSpec {
	w := whoSpec{kind: "user", place: "primary", host: fmt.Sprintf("node%d.example.ts.net", i), login: fmt.Sprintf("user%d@example.com", i), tags: []string{"tag:replay", fmt.Sprintf("tag:n%d", i)},
		remote: fmt.Sprintf("100.64.0.%d:%d", 1+rng.Intn(200), 1024+rng.Intn(60000))}
	if rng.Intn(8) == 0 {
		w.remote = fmt.Sprintf("[fd7a:115c:a1e0::%x]:%d", 1+rng.Intn(0xfff), 1024+rng.Intn(60000))
	}
	switch rng.Intn(4) {
	case 0:
		w.kind = "tagged"
	case 1:
		if rng.Intn(3) == 0 {
			w.kind = "tagged+user"
		}
	}
	// the grant
	switch r := rng.Float64(); {
	case r < b.pAllow: // exactly what is needed
		pat := acl.Secret(name)
		if action == "info" && rng.Intn(2) == 0 {
			pat = "*"
		}
		w.rules = acl.Rules{{Action: []acl.Action{acl.Action(action)}, Secret: []acl.Secret{pat}}}
		w.decoy = acl.Rules{{Action: []acl.Action{acl.Action(action)}, Secret: []acl.Secret{acl.Secret(name + "-other")}}}
	case r < b.pAllow+(1-b.pAllow)/2: // everything but what is needed
		var others []acl.Action
		for _, a := range allActions {
			if string(a) != action {
				others = append(others, a)
			}
		}
		w.rules = acl.Rules{{Action: others, Secret: []acl.Secret{"*"}}, {Action: []acl.Action{acl.Action(action)}, Secret: []acl.Secret{acl.Secret(name + "-other")}}}
		w.decoy = superRules()
	default: // arbitrary rules
		for n := 1 + rng.Intn(3); n > 0; n-- {
			var r acl.Rule
			for _, a := range allActions {
				if rng.Intn(2) == 0 {
					r.Action = append(r.Action, a)
				}
			}
			for k := rng.Intn(3); k >= 0; k-- {
				r.Secret = append(r.Secret, acl.Secret(pick(rng, patterns)))
			}
			w.rules = append(w.rules, r)
		}
		if refAllow(w.rules, action, name) {
			w.decoy = acl.Rules{{Action: []acl.Action{"get"}, Secret: []acl.Secret{"nothing"}}}
		} else {
			w.decoy = superRules()
		}
	}
	switch r := rng.Intn(10); {
	case r < 4:
		w.place = "primary"
	case r < 6:
		w.place = "legacy"
	case r < 8:
		w.place = "both"
	default:
		w.place = "primary-empty+legacy"
	}
	if rng.Intn(12) == 0 {
		w.xfwd = "forged.example.com"
	}
	if rng.Intn(12) == 0 {
		w.xfwdFor = "100.99.99.99"
	}
	if rng.Float64() < b.pWho {
		switch rng.Intn(12) {
		case 0:
			w.kind = "whois-error"
		case 1:
			w.kind = "anonymous"
		case 2:
			w.kind, w.remote = "bad-addr", pick(rng, []string{"100.99.99.99", "", "node.example.ts.net:443", "100.99.99.99:http"})
		case 3:
			w.place = "primary-malformed"
		case 4, 5:
			w.place, w.decoy = "primary-malformed+legacy", superRules()
		case 6:
			w.place, w.decoy = "primary-partly-malformed", superRules()
		case 7:
			w.place = "legacy-malformed"
		case 8:
			w.place = "primary-empty+legacy-malformed"
		case 9:
			w.place, w.decoy = "none", superRules()
		case 10:
			w.place = "nil-capmap"
		case 11:
			w.place, w.rules, w.decoy = "both", nil, w.rules // an empty primary list falls back
		}
	}
	return w
}

func canonicalBody(q *reqSpec) string {
	var v any
	switch q.ep {
	case "list":
		v = api.ListRequest{}
	case "get":
		v = api.GetRequest{Name: q.name, Version: q.ver, UpdateIfChanged: q.ifChanged}
	case "info":
		v = api.InfoRequest{Name: q.name}
	case "put":
		v = api.PutRequest{Name: q.name, Value: []byte(q.value)}
	case "activate":
		v = api.ActivateRequest{Name: q.name, Version: q.ver}
	case "delete":
		v = api.DeleteRequest{Name: q.name}
	case "delete-version":
		v = api.DeleteVersionRequest{Name: q.name, Version: q.ver}
	}
	b, _ := json.Marshal(v)
	return string(b)
}

func zeroRequest(q *reqSpec) {
	q.name, q.ver, q.ifChanged, q.value = "", 0, false, ""
}

func genRequest(rng *rand.Rand, b bias, h *harness, i int, last, late bool) *reqSpec {
	q := &reqSpec{method: "POST", ctype: strp("application/json"), nb: strp("setec"), bodyOK: true, bodyNote: "canonical"}
	switch r := rng.Intn(100); {
	case r < 32:
		q.ep = "put"
	case r < 54:
		q.ep = "get"
	case r < 66:
		q.ep = "activate"
	case r < 78:
		q.ep = "delete-version"
	case r < 86:
		q.ep = "info"
	case r < 94:
		q.ep = "list"
	default:
		q.ep = "delete"
	}
	q.name = genNames[0]
	if r := rng.Intn(10); r >= 7 {
		q.name = genNames[r-6]
	}
	if b.setup && !last && rng.Intn(8) != 0 {
		q.ep, q.name = pick(rng, []string{"put", "put", "put", "activate", "activate", "delete-version"}), genNames[0]
		if s := h.m[q.name]; s == nil || len(s.versions) < 2 {
			q.ep = "put"
		}
	}
	if last && b.ep != "" {
		q.ep = b.ep
		if b.setup {
			q.name = genNames[0]
		}
	}
	q.value = pick(rng, h.vals)
	top := 1
	if s := h.m[q.name]; s != nil {
		top = int(s.latest) + 1
	}
	q.ver = api.SecretVersion(rng.Intn(top + 1))
	if s := h.m[q.name]; s != nil && rng.Intn(10) < 7 {
		// mostly a version that exists, often the active or the newest one
		var vs []api.SecretVersion
		for v := range s.versions {
			vs = append(vs, v)
		}
		sort.Slice(vs, func(i, j int) bool { return vs[i] < vs[j] })
		q.ver = pick(rng, append(vs, s.active, s.latest))
		if q.ep == "delete-version" && q.ver == s.active && rng.Intn(4) != 0 {
			q.ver = pick(rng, vs)
		}
	}
	switch q.ep {
	case "get":
		q.ifChanged = rng.Intn(2) == 0 || (b.cond && rng.Intn(3) != 0)
		if rng.Intn(3) == 0 {
			q.ver = 0
		}
		q.value = ""
	case "put":
		q.ver = 0
	case "list":
		q.name, q.ver, q.value = "", 0, ""
	case "info", "delete":
		q.ver, q.value = 0, ""
	default:
		q.value = ""
	}
	q.who = genWho(rng, b, requiredAction[q.ep], q.name, i)
	q.body = canonicalBody(q)

	if rng.Float64() < b.pGate {
		switch rng.Intn(3) {
		case 0:
			q.method = pick(rng, []string{"GET", "PUT", "DELETE", "HEAD", "PATCH", "OPTIONS"})
		case 1:
			q.ctype = pick(rng, []*string{nil, strp(""), strp("text/plain"), strp("application/json; charset=utf-8"), strp("Application/JSON"), strp("application/x-www-form-urlencoded")})
		case 2:
			q.nb = pick(rng, []*string{nil, strp(""), strp("Setec"), strp("setec "), strp("1"), strp("true")})
		}
	}
	if r := rng.Float64(); r < b.pBody {
		q.bodyOK = false
		var opts [][2]string
		opts = append(opts, [2]string{"empty", ""}, [2]string{"blank", " \n\t "}, [2]string{"truncated", q.body[:len(q.body)-1]}, [2]string{"not JSON", "Name=alpha&Version=1"},
			[2]string{"array", "[1,2]"}, [2]string{"string", `"alpha"`}, [2]string{"number", "5"}, [2]string{"unterminated", `{"Name":"al`})
		if q.ep != "list" {
			opts = append(opts, [2]string{"wrong type for Name", `{"Name":5}`}, [2]string{"wrong type for Name", `{"Name":["alpha"]}`})
		}
		if q.ep == "get" || q.ep == "activate" || q.ep == "delete-version" {
			opts = append(opts, [2]string{"wrong type for Version", `{"Name":"alpha","Version":"1"}`}, [2]string{"negative Version", `{"Name":"alpha","Version":-1}`}, [2]string{"Version out of range", `{"Name":"alpha","Version":4294967296}`})
		}
		if q.ep == "get" {
			opts = append(opts, [2]string{"wrong type for UpdateIfChanged", `{"Name":"alpha","Version":1,"UpdateIfChanged":"yes"}`})
		}
		if q.ep == "put" {
			opts = append(opts, [2]string{"Value not base64", `{"Name":"alpha","Value":"%%%S3CR3T-raw-0009%%%"}`})
		}
		o := pick(rng, opts)
		q.bodyNote, q.body = o[0], o[1]
	} else if r < b.pBody*2.5 {
		// unusual but valid JSON requests
		switch rng.Intn(5) {
		case 0:
			q.bodyNote, q.body = "extra field", strings.TrimSuffix(q.body, "}")+`,"Zzz":[1,{"a":null}]}`
			if q.ep == "list" {
				q.body = `{"Zzz":[1,{"a":null}]}`
			}
		case 1:
			q.bodyNote, q.body = "padded", " \n"+q.body+"\n "
		case 2:
			q.bodyNote, q.body = "null", "null"
			zeroRequest(q)
		case 3:
			q.bodyNote, q.body = "empty object", "{}"
			zeroRequest(q)
		case 4:
			q.bodyNote = "lower-case keys"
			for _, k := range []string{"Name", "Version", "UpdateIfChanged", "Value"} {
				q.body = strings.ReplaceAll(q.body, `"`+k+`"`, `"`+strings.ToLower(k)+`"`)
			}
		}
	}
	if rng.Float64() < b.pFault {
		// an audit failure makes every later record fail too (sticky encoder), so it comes late in a history
		if rng.Intn(3) != 0 || !late {
			q.saveFail = true
		} else {
			q.audFail = true
		}
	}
	return q
}

// newWithBucket: with a bucket configured, New starts the backup task, which
// uploads a copy of the database at start-up and stops with New's context.
// The S3 client New builds is pointed at a loopback httptest server through
// AWS_ENDPOINT_URL.
func newWithBucket(t *testing.T) {
	hist := []string{"New(Config{DB: <db holding one secret>, BackupBucket: \"replay-bucket\", BackupBucketRegion: \"us-east-1\"}) with AWS_ENDPOINT_URL at a local listener"}
	bad := func(format string, a ...any) {
		t.Fatalf("REPLAY-COUNTEREXAMPLE\nhistory:\n  %s\nproblem: %s", strings.Join(hist, "\n  "), fmt.Sprintf(format, a...))
	}
	type upload struct {
		method, path string
		body         []byte
	}
	got := make(chan upload, 16)
	ts := httptest.NewServer(http.HandlerFunc(func(w http.ResponseWriter, r *http.Request) {
		b, _ := io.ReadAll(r.Body)
		got <- upload{r.Method, r.URL.Path, b}
		w.Header().Set("Etag", `"replay"`)
		w.WriteHeader(200)
	}))
	defer ts.Close()
	t.Setenv("AWS_ENDPOINT_URL", ts.URL)
	dir := scratchDir(t)
	path := filepath.Join(dir, "db")
	d, err := db.Open(path, &testutil.DummyAEAD{Name: "replay"}, audit.New(io.Discard))
	if err != nil {
		t.Fatalf("open: %v", err)
	}
	su := superuser()
	if _, err := d.Put(su, "alpha", []byte("S3CR3T-backup-0001")); err != nil {
		t.Fatalf("put: %v", err)
	}
	file, _ := os.ReadFile(path)
	ctx, cancel := context.WithCancel(context.Background())
	defer cancel()
	var s *Server
	func() {
		defer func() {
			if e := recover(); e != nil {
				bad("New panicked: %v", e)
			}
		}()
		s, err = New(ctx, Config{DB: d, Mux: http.NewServeMux(), WhoIs: func(context.Context, string) (*apitype.WhoIsResponse, error) { return nil, errors.New("x") }, BackupBucket: replayBucket, BackupBucketRegion: "us-east-1"})
	}()
	if err != nil || s == nil {
		bad("New failed on a valid configuration: %v", err)
	}
	select {
	case u := <-got:
		if u.method != "PUT" || !strings.Contains(u.path, "/db-") {
			bad("the request at start-up is %s %s, not an object upload", u.method, u.path)
		}
		if !bytes.Equal(u.body, file) {
			bad("the object uploaded at start-up (%d bytes) is not a byte-exact copy of the database file (%d bytes)", len(u.body), len(file))
		}
	case <-time.After(15 * time.Second):
		bad("a backup bucket is configured but no backup was uploaded at start-up")
	}
	cancel()
	select {
	case u := <-got:
		bad("a second upload (%s %s) right after the first", u.method, u.path)
	case <-time.After(20 * time.Millisecond):
	}
}

var backupModes = []string{"ok", "ok", "http-500", "http-403", "transport-error", "cancelled-during-upload", "context-already-cancelled", "file-missing", "write-during-upload"}

// op is one recorded operation of a history.
type op struct {
	kind string // request | backup | periodic | restart
	mode string
	q    *reqSpec // the request; for a backup with a write in flight, that write
}

func (h *harness) do(o op) {
	switch o.kind {
	case "request":
		h.step(o.q)
	case "backup":
		h.backup(o.mode, o.q)
	case "periodic":
		h.periodic(o.mode)
	case "restart":
		h.restart()
	}
}

// runHistory runs a history on a fresh server and returns the counterexample
// report, or "" if the real code agrees with the model throughout. Either the
// fixed operations are replayed, or generate produces them on the fly (they
// are then recorded in *rec).
func runHistory(t *testing.T, o newOpts, vals []string, stats map[string]int, fixed []op, generate func(h *harness, do func(op)), rec *[]op) (report string) {
	var h *harness
	defer func() {
		if h != nil {
			os.RemoveAll(h.dir)
		}
		if e := recover(); e != nil {
			f, ok := e.(failure)
			if !ok {
				panic(e)
			}
			report = f.report
		}
	}()
	h = newHarness(t, o)
	h.vals = vals
	if stats != nil {
		h.stats = stats
	}
	h.start(o)
	for _, x := range fixed {
		h.do(x)
	}
	if generate != nil {
		generate(h, func(x op) {
			*rec = append(*rec, x)
			h.do(x)
		})
	}
	return ""
}

// shrink drops operations from a failing history as long as it keeps failing,
// and returns the report of the shortest failing history found.
func shrink(t *testing.T, o newOpts, vals []string, ops []op, report string) string {
	deadline := time.Now().Add(20 * time.Second)
	if r := runHistory(t, newOpts{}, vals, nil, ops, nil, nil); r != "" {
		o, report = newOpts{}, r
	}
	for changed := true; changed; {
		changed = false
		for i := len(ops) - 1; i >= 0 && time.Now().Before(deadline); i-- {
			shorter := append(append([]op(nil), ops[:i]...), ops[i+1:]...)
			if r := runHistory(t, o, vals, nil, shorter, nil, nil); r != "" {
				ops, report, changed = shorter, r, true
			}
		}
	}
	return report
}

func TestVerifReplayServer(t *testing.T) {
	focus := os.Getenv("VERIF_REPLAY_FOCUS")
	b := biasFor(focus)
	// hermetic AWS configuration, should New ever build a client
	none := filepath.Join(t.TempDir(), "none")
	for k, v := range map[string]string{"AWS_CONFIG_FILE": none, "AWS_SHARED_CREDENTIALS_FILE": none, "AWS_EC2_METADATA_DISABLED": "true", "AWS_ACCESS_KEY_ID": "AKIDREPLAY", "AWS_SECRET_ACCESS_KEY": "SECRETREPLAY", "AWS_REGION": "us-east-1"} {
		t.Setenv(k, v)
	}
	oldLog := log.Writer()
	log.SetOutput(io.Discard)
	defer log.SetOutput(oldLog)

	// a failed obligation of the backup task: the timelines come first
	timingFirst := strings.Contains(strings.ToLower(focus), "backup")
	if timingFirst && verifTimingScenarios != nil {
		verifTimingScenarios(t, focus)
	}

	scratchBase = scratchDir(t)
	rng := rand.New(rand.NewSource(replaySeed()))
	stats := map[string]int{}
	for r := 0; r < b.runs; r++ {
		o := newOpts{viaPath: rng.Intn(6) == 0, decoyPath: rng.Intn(3) == 0, regionNoBkt: rng.Intn(4) == 0 || b.newVariant && rng.Intn(2) == 0}
		vals := []string{pick(rng, genValues), pick(rng, genValues), pick(rng, genValues)}
		var ops []op
		// the operations are generated while the history runs (they depend on the model state) and recorded
		report := runHistory(t, o, vals, stats, nil, func(h *harness, do func(op)) {
			// most histories start by building up a few versions of one secret
			for k := rng.Intn(5); k > 0; k-- {
				q := genRequest(rng, bias{pAllow: 1, setup: true}, h, 0, false, false)
				if rng.Intn(3) == 0 {
					q.who.place, q.who.kind = "primary", "user"
				}
				do(op{kind: "request", q: q})
			}
			n := 3 + rng.Intn(8)
			for i := 0; i < n; i++ {
				last := r%2 == 0 && i == n-1
				switch x := rng.Float64(); {
				case x < b.pBackup && !h.auditBroken:
					mode := pick(rng, backupModes)
					var nested *reqSpec
					if mode == "write-during-upload" {
						nested = genRequest(rng, bias{pAllow: 1}, h, i, false, false)
						nested.ep, nested.name, nested.value = "put", genNames[0], fmt.Sprintf("S3CR3T-during-upload-%d", r)
						nested.who = genWho(rng, bias{pAllow: 1}, "put", nested.name, i)
						nested.who.rules, nested.who.place = superRules(), "primary"
						nested.body = canonicalBody(nested)
					}
					do(op{kind: "backup", mode: mode, q: nested})
				case x < b.pBackup+b.pBackup/4 && !h.auditBroken:
					do(op{kind: "periodic", mode: pick(rng, []string{"ok", "ok", "first-upload-fails", "context-already-cancelled"})})
				case x < b.pBackup+b.pBackup/4+b.pRestart:
					do(op{kind: "restart"})
				default:
					do(op{kind: "request", q: genRequest(rng, b, h, i, last, i >= n-2)})
				}
			}
		}, &ops)
		if report != "" {
			t.Fatal(shrink(t, o, vals, ops, report))
		}
	}

	if os.Getenv("VERIF_REPLAY_STATS") != "" {
		t.Logf("request outcomes: %v", stats)
	}

	// New refuses a configuration without a database, without starting anything
	func() {
		defer func() {
			if e := recover(); e != nil {
				t.Fatalf("REPLAY-COUNTEREXAMPLE\nhistory:\n  New(Config{Mux, WhoIs}) without DB, DBPath, Key, AuditLog\nproblem: New panicked: %v", e)
			}
		}()
		s, err := New(context.Background(), Config{Mux: http.NewServeMux(), WhoIs: func(context.Context, string) (*apitype.WhoIsResponse, error) { return nil, errors.New("x") }})
		if err == nil || s != nil {
			t.Fatalf("REPLAY-COUNTEREXAMPLE\nhistory:\n  New(Config{Mux, WhoIs}) without DB, DBPath, Key, AuditLog\nproblem: New returned server=%v err=%v, expected an error and no server", s, err)
		}
	}()

	newWithBucket(t)

	if verifTimingScenarios != nil {
		if !timingFirst {
			verifTimingScenarios(t, focus)
		}
	} else {
		t.Log("timing of periodicBackup not replayed: testing/synctest needs GOEXPERIMENT=synctest with this toolchain (and the companion file zz_verif_replay_timing_test.go in the overlay)")
	}
}

// replaySeed: the seed is fixed; VERIF_REPLAY_SEED overrides it when exploring by hand.
func replaySeed() int64 {
	var n int64 = 1
	fmt.Sscan(os.Getenv("VERIF_REPLAY_SEED"), &n)
	return n
}
