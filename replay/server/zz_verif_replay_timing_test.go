//go:build goexperiment.synctest

package server

// Companion of zz_verif_replay_test.go: timelines for periodicBackup under
// virtual time (testing/synctest; with go1.24 this needs GOEXPERIMENT=synctest
// and both files in the overlay). A timeline is a list of database writes at
// chosen virtual times, a scripted outcome for each upload attempt (accepted,
// refused, transport failure, hanging until abandoned, accepted while a write
// lands in the meantime) and a moment of cancellation. The observations are
// compared with C17: every upload is a byte-exact copy of the file at some
// moment; an upload at start-up; afterwards uploads only when the database was
// written since the last successful one and at most once a minute; a failed
// upload is retried; once writes stop the newest backup equals the file; the
// task sleeps in between (virtual time can advance) and stops on cancellation.

import (
	"bytes"
	"context"
	"errors"
	"fmt"
	"io"
	"math/rand"
	"os"
	"path/filepath"
	"strings"
	"sync"
	"testing"
	"testing/synctest"
	"time"

	"github.com/tailscale/setec/audit"
	"github.com/tailscale/setec/db"
	"github.com/tink-crypto/tink-go/v2/testutil"
)

func init() { verifTimingScenarios = timingScenarios }

type timeline struct {
	outcomes []string        // per upload attempt; afterwards every upload is accepted
	writes   []time.Duration // gaps between writes (the first one counted from the start)
	quiet    time.Duration   // time without writes before the end
	cancelAt time.Duration   // if non-zero: cancel this long after the start instead of at the end
}

func (tl timeline) String() string {
	return fmt.Sprintf("upload outcomes %v then accepted; writes after gaps %v; then %v without writes; cancel at %v (0: at the end)", tl.outcomes, tl.writes, tl.quiet, tl.cancelAt)
}

func runTimeline(t *testing.T, base string, n int, tl timeline) {
	dir := filepath.Join(base, fmt.Sprintf("timing-%d", n))
	os.MkdirAll(dir, 0700)
	defer os.RemoveAll(dir)
	path := filepath.Join(dir, "db")
	key := &testutil.DummyAEAD{Name: "replay"}
	d, err := db.Open(path, key, audit.New(io.Discard))
	if err != nil {
		t.Fatalf("open: %v", err)
	}
	su := superuser()
	if _, err := d.Put(su, "alpha", []byte("S3CR3T-initial")); err != nil {
		t.Fatalf("put: %v", err)
	}
	rec := &s3Rec{}
	s := &Server{db: d, backupClient: newS3Client(rec), backupBucket: replayBucket}

	hist := []string{"timeline: " + tl.String()}
	bad := func(format string, a ...any) {
		t.Fatalf("REPLAY-COUNTEREXAMPLE\nhistory:\n  %s\nproblem: %s", strings.Join(hist, "\n  "), fmt.Sprintf(format, a...))
	}
	var mu sync.Mutex
	var problem string // set inside the bubble, reported outside
	fail := func(format string, a ...any) {
		mu.Lock()
		defer mu.Unlock()
		if problem == "" {
			problem = fmt.Sprintf(format, a...)
		}
	}
	finished := make(chan any, 1)
	go func() {
		defer func() { finished <- recover() }()
		synctest.Run(func() {
			start := time.Now()
			at := func() string { return "+" + time.Since(start).String() }
			first, _ := os.ReadFile(path)
			files := [][]byte{first}
			nWrites := 0
			write := func(why string) {
				nWrites++
				if _, err := d.Put(su, "alpha", []byte(fmt.Sprintf("S3CR3T-write-%d", nWrites))); err != nil {
					fail("put failed: %v", err)
				}
				b, _ := os.ReadFile(path)
				files = append(files, b)
				hist = append(hist, fmt.Sprintf("%s: database write #%d%s", at(), nWrites, why))
			}
			type attempt struct {
				at      time.Duration
				outcome string
				took    time.Duration
			}
			var attempts []attempt
			ctx, cancel := context.WithCancel(context.Background())
			defer cancel()
			rec.script = func(n int) (int, error) {
				o := "accepted"
				if n <= len(tl.outcomes) {
					o = tl.outcomes[n-1]
				}
				attempts = append(attempts, attempt{at: time.Since(start), outcome: o, took: -1})
				idx := len(attempts) - 1
				hist = append(hist, fmt.Sprintf("%s: upload attempt %d -> %s", at(), n, o))
				var status int
				var err error
				switch o {
				case "accepted":
					status = 200
				case "accepted, write meanwhile":
					write(" (while the upload is in flight)")
					status = 200
				case "refused":
					status = 500
				case "transport failure":
					err = errors.New("injected transport failure")
				case "hangs":
					reqCtx := rec.current.Context()
					<-reqCtx.Done()
					err = reqCtx.Err()
					hist = append(hist, fmt.Sprintf("%s: the hanging upload was abandoned", at()))
				}
				attempts[idx].took = time.Since(start) - attempts[idx].at
				return status, err
			}
			done := make(chan struct{})
			go func() {
				defer close(done)
				s.periodicBackup(ctx)
			}()
			hist = append(hist, "+0s: periodicBackup started")
			cancelled := false
			sleepUntil := func(target time.Duration) {
				if tl.cancelAt != 0 && !cancelled && target >= tl.cancelAt {
					time.Sleep(tl.cancelAt - time.Since(start))
					synctest.Wait()
					hist = append(hist, at()+": context cancelled")
					cancel()
					cancelled = true
				}
				if d := target - time.Since(start); d > 0 {
					time.Sleep(d)
				}
				synctest.Wait()
			}
			sleepUntil(0)
			var cur time.Duration
			for _, gap := range tl.writes {
				cur += gap
				sleepUntil(cur)
				write("")
			}
			sleepUntil(cur + tl.quiet)
			current, _ := os.ReadFile(path)
			reqs := rec.snapshot()

			// ---- compare with C17 -------------------------------------------------
			var lastStored []byte
			haveStored := false
			for i, r := range reqs {
				known := false
				for _, f := range files {
					known = known || bytes.Equal(f, r.body)
				}
				if !known {
					fail("upload %d (%d bytes) is not a byte-exact copy of any content the database file had", i+1, len(r.body))
				}
				if i < len(attempts) && i > 0 && attempts[i].at-attempts[i-1].at < time.Minute {
					fail("uploads %d and %d are %v apart: more than one a minute", i, i+1, attempts[i].at-attempts[i-1].at)
				}
				if i > 0 && haveStored && bytes.Equal(lastStored, r.body) {
					fail("upload %d repeats the last successful upload although the database was not written in between", i+1)
				}
				if r.status == 200 {
					lastStored, haveStored = r.body, true
				}
			}
			for i, a := range attempts {
				took := a.took
				if took < 0 { // still in flight
					took = time.Since(start) - a.at
				}
				if a.outcome == "hangs" && took > 5*time.Minute {
					fail("upload %d was left hanging for %v: a backup must be abandoned after five minutes", i+1, took)
				}
			}
			if len(attempts) == 0 {
				fail("no upload at start-up")
			} else if attempts[0].at != 0 {
				fail("the first upload came %v after start-up", attempts[0].at)
			}
			if !cancelled {
				// the quiet period is long enough for every scripted failure to be retried
				if !haveStored {
					fail("%v after the last write no backup has been stored", tl.quiet)
				} else if !bytes.Equal(lastStored, current) {
					fail("%v after the last write the newest backup still differs from the database file: a write was never backed up", tl.quiet)
				}
				hist = append(hist, at()+": context cancelled")
				cancel()
			}
			synctest.Wait()
			select {
			case <-done:
			default:
				fail("periodicBackup did not stop after its context was cancelled")
			}
			nAfter := len(rec.snapshot())
			time.Sleep(10 * time.Minute)
			synctest.Wait()
			if len(rec.snapshot()) != nAfter {
				fail("uploads continue after the context was cancelled")
			}
		})
	}()
	select {
	case p := <-finished:
		if p != nil {
			bad("panic: %v", p)
		}
	case <-time.After(10 * time.Second):
		mu.Lock()
		p := problem
		mu.Unlock()
		if p != "" {
			bad("%s", p) // and the task never returned
		}
		bad("virtual time cannot advance: the backup task does not sleep (it spins on the database), and it ignores cancellation")
	}
	if problem != "" {
		bad("%s", problem)
	}
	for i, r := range rec.snapshot() {
		if r.status != 200 {
			continue
		}
		p := filepath.Join(dir, "restore")
		os.WriteFile(p, r.body, 0600)
		if _, err := db.Open(p, key, audit.New(io.Discard)); err != nil {
			bad("backup object %d does not open with the server's key: %v", i+1, err)
		}
	}
}

func timingScenarios(t *testing.T, focus string) {
	rng := rand.New(rand.NewSource(replaySeed() + 1))
	n := 60
	if f := strings.ToLower(focus); strings.Contains(f, "backup") {
		n = 200
	}
	base := scratchDir(t)
	gaps := []time.Duration{time.Second, 10 * time.Second, 59 * time.Second, time.Minute, 61 * time.Second, 2 * time.Minute, 7 * time.Minute, 30 * time.Second}
	outcomes := []string{"accepted", "accepted", "accepted", "refused", "transport failure", "hangs", "accepted, write meanwhile", "accepted, write meanwhile"}
	// a fixed prefix of plain timelines, then random ones
	fixed := []timeline{
		{quiet: 10 * time.Minute},
		{outcomes: []string{"accepted, write meanwhile"}, quiet: 10 * time.Minute},
		{outcomes: []string{"hangs"}, quiet: 20 * time.Minute},
		{outcomes: []string{"refused", "transport failure"}, writes: []time.Duration{30 * time.Second}, quiet: 10 * time.Minute},
		{writes: []time.Duration{90 * time.Second, time.Second, time.Second}, quiet: 10 * time.Minute},
		{quiet: 10 * time.Minute, cancelAt: 3 * time.Minute},
		{outcomes: []string{"hangs"}, quiet: 10 * time.Minute, cancelAt: 2 * time.Minute},
	}
	for i := 0; i < n; i++ {
		var tl timeline
		if i < len(fixed) {
			tl = fixed[i]
		} else {
			for k := rng.Intn(4); k > 0; k-- {
				tl.outcomes = append(tl.outcomes, pick(rng, outcomes))
			}
			for k := rng.Intn(6); k > 0; k-- {
				tl.writes = append(tl.writes, pick(rng, gaps))
			}
			tl.quiet = time.Duration(len(tl.outcomes)+2) * 6 * time.Minute
			if rng.Intn(5) == 0 {
				tl.cancelAt = pick(rng, []time.Duration{time.Second, time.Minute, 90 * time.Second, 4 * time.Minute, 12 * time.Minute})
			}
		}
		runTimeline(t, base, i, tl)
	}
}
